// Unbounded spec-level lemmas (hand-written).  Each is reported together with the status of its link to the code.

// ---------------------------------------------------------------- L-ZZ: Rice folding is a bijection (RFC 9639 §9.2.7.1)
pub open spec fn zigzag(r: int) -> int { if r < 0 { 2 * (-r - 1) + 1 } else { 2 * r } }
pub open spec fn unzigzag(u: int) -> int { if u % 2 == 1 { -(u / 2) - 1 } else { u / 2 } }

pub proof fn l_zz_inverse(r: int)
    ensures unzigzag(zigzag(r)) == r, zigzag(r) >= 0,
{}
pub proof fn l_zz_inverse2(u: int)
    requires u >= 0
    ensures zigzag(unzigzag(u)) == u,
{}
/// a residual r is a valid 32-bit residual (excluding -2^31) iff its folding fits 32 bits and is not 2^32-1
pub proof fn l_zz_range(r: int)
    ensures (-0x8000_0000 < r <= 0x7FFF_FFFF) <==> (0 <= zigzag(r) <= 0xFFFF_FFFE),
{}
/// splitting the folded value at k bits and re-joining is the identity (quotient/remainder form of msb/lsb)
pub proof fn l_rice_split(z: int, p: int)
    requires z >= 0, p > 0
    ensures (z / p) * p + (z % p) == z, 0 <= z % p < p,
{
    vstd::arithmetic::div_mod::lemma_fundamental_div_mod(z, p);
    vstd::arithmetic::div_mod::lemma_mod_bound(z, p);
    assert((z / p) * p == p * (z / p)) by (nonlinear_arith);
}

// ---------------------------------------------------------------- L-MIX: stereo decorrelation is invertible (RFC 9639 §4.2)
pub open spec fn side_of(l: int, r: int) -> int { l - r }
pub open spec fn mid_of(l: int, r: int) -> int { (l + r) / 2 }   // floor: Verus `/` on int is Euclidean
pub open spec fn unmix_ms(mid: int, side: int) -> (int, int) {
    let m = 2 * mid + (side % 2);
    ((m + side) / 2, (m - side) / 2)
}
pub proof fn l_mix_ls(l: int, r: int) ensures l - side_of(l, r) == r {}
pub proof fn l_mix_sr(l: int, r: int) ensures side_of(l, r) + r == l {}
pub proof fn l_mix_ms(l: int, r: int)
    ensures unmix_ms(mid_of(l, r), side_of(l, r)) == (l, r)
{
    let s = l - r;
    let m = (l + r) / 2;
    // (l + r) and (l - r) have the same parity
    assert((l + r) % 2 == (l - r) % 2) by {
        assert(l + r == (l - r) + 2 * r);
        vstd::arithmetic::div_mod::lemma_mod_multiples_vanish(r, l - r, 2);
    }
    vstd::arithmetic::div_mod::lemma_fundamental_div_mod(l + r, 2);
    assert(2 * m + (s % 2) == l + r);
}
/// the side channel of b-bit audio needs b + 1 bits, mid stays within b bits
pub proof fn l_mix_width(l: int, r: int, lo: int, hi: int)
    requires lo <= l <= hi, lo <= r <= hi, lo <= 0 <= hi
    ensures lo - hi <= side_of(l, r) <= hi - lo, lo <= mid_of(l, r) <= hi,
{
    vstd::arithmetic::div_mod::lemma_fundamental_div_mod(l + r, 2);
}

// ---------------------------------------------------------------- L-LPC: prediction residuals are invertible for ANY predictor
// (RFC 9639 §9.2.5, §9.2.6) — the predictor is an uninterpreted function of the preceding samples, so this covers every
// order, every coefficient vector, every shift, and the fixed predictors.
pub uninterp spec fn pred(prefix: Seq<int>) -> int;

pub open spec fn residuals(x: Seq<int>, order: int) -> Seq<int> {
    Seq::new(x.len(), |i: int| if i < order { x[i] } else { x[i] - pred(x.subrange(0, i)) })
}
pub open spec fn restore_upto(c: Seq<int>, order: int, n: int) -> Seq<int>
    decreases n
{
    if n <= 0 { Seq::empty() }
    else {
        let prev = restore_upto(c, order, n - 1);
        if n - 1 < order { prev.push(c[n - 1]) } else { prev.push(c[n - 1] + pred(prev)) }
    }
}
pub proof fn l_lpc_inverse(x: Seq<int>, order: int, n: int)
    requires 0 <= order, 0 <= n <= x.len()
    ensures restore_upto(residuals(x, order), order, n) =~= x.subrange(0, n)
    decreases n
{
    if n > 0 {
        l_lpc_inverse(x, order, n - 1);
        let prev = restore_upto(residuals(x, order), order, n - 1);
        assert(prev =~= x.subrange(0, n - 1));
    }
}

// ---------------------------------------------------------------- L-PART: residual partition layout (RFC 9639 §9.2.7)
pub open spec fn pow2(k: nat) -> int decreases k { if k == 0 { 1 } else { 2 * pow2((k - 1) as nat) } }
pub open spec fn part_ok(bs: int, order: int, po: nat) -> bool { po <= 15 && bs % pow2(po) == 0 && bs / pow2(po) > order }
pub open spec fn part_len(bs: int, order: int, po: nat, i: int) -> int { if i == 0 { bs / pow2(po) - order } else { bs / pow2(po) } }

pub proof fn l_pow2_pos(k: nat) ensures pow2(k) >= 1 decreases k { if k > 0 { l_pow2_pos((k - 1) as nat); } }

/// the partitions of a legal layout are all non-empty and together hold exactly the block's residuals
pub proof fn l_part_total(bs: int, order: int, po: nat)
    requires part_ok(bs, order, po), order >= 0, bs >= 1
    ensures part_len(bs, order, po, 0) >= 1,
            part_len(bs, order, po, 0) + (pow2(po) - 1) * (bs / pow2(po)) == bs - order,
{
    l_pow2_pos(po);
    let c = pow2(po);
    let p = bs / c;
    vstd::arithmetic::div_mod::lemma_fundamental_div_mod(bs, c);
    assert(bs == c * p);
    assert((c - 1) * p == c * p - p) by (nonlinear_arith);
}

/// how the encoder forms partitions: it cuts the `len = bs - order` residuals into chunks of `p = bs / c` from the
/// END (rchunks), so it gets ceil(len / p) chunks, the first being the short one.  That count equals the partition
/// count c exactly when order < p, and then the chunk lengths are the RFC's (p - order, p, p, ...).
pub open spec fn rchunk_count(len: int, p: int) -> int { (len + p - 1) / p }
pub proof fn l_part_encoder_filter(bs: int, order: int, c: int)
    requires c >= 1, bs >= 1, bs % c == 0, 0 <= order <= bs, bs / c >= 1
    ensures (rchunk_count(bs - order, bs / c) == c) <==> (order < bs / c),
{
    let p = bs / c;
    vstd::arithmetic::div_mod::lemma_fundamental_div_mod(bs, c);
    assert(bs == c * p);
    let len = bs - order;
    if order < p {
        // len + p - 1 = c*p + (p - 1 - order), 0 <= p - 1 - order < p
        assert(len + p - 1 == p * c + (p - 1 - order)) by (nonlinear_arith) requires bs == c * p, len == bs - order;
        vstd::arithmetic::div_mod::lemma_fundamental_div_mod_converse(len + p - 1, p, c, p - 1 - order);
    } else {
        // len + p - 1 <= c*p - 1  => quotient <= c - 1
        assert(len + p - 1 < p * c) by (nonlinear_arith) requires bs == c * p, len == bs - order, order >= p;
        vstd::arithmetic::div_mod::lemma_div_is_ordered(len + p - 1, p * c - 1, p);
        assert((p * c - 1) / p < c) by {
            assert(p * c - 1 == (c - 1) * p + (p - 1)) by (nonlinear_arith);
            vstd::arithmetic::div_mod::lemma_fundamental_div_mod_converse(p * c - 1, p, c - 1, p - 1);
        }
    }
}

/// Capacity of the encoder's candidate buffers: with the partition order limited to 6 (64 partitions, the capacity of the
/// ArrayVec the chunks are collected into) cutting at most a block of residuals into chunks of block/2^po never yields
/// more than 2^po <= 64 chunks -- so `collect::<Option<ArrayVec<_, MAX_PARTITIONS>>>()` cannot overflow.
pub proof fn l_part_capacity(bs: int, order: int, c: int)
    requires 1 <= c <= 64, bs >= 1, bs % c == 0, 0 <= order <= bs, bs / c >= 1
    ensures rchunk_count(bs - order, bs / c) <= c, rchunk_count(bs - order, bs / c) <= 64,
{
    let p = bs / c;
    vstd::arithmetic::div_mod::lemma_fundamental_div_mod(bs, c);
    assert(bs == c * p);
    let len = bs - order;
    assert(len + p - 1 <= p * c + (p - 1)) by (nonlinear_arith) requires bs == c * p, len == bs - order, order >= 0;
    vstd::arithmetic::div_mod::lemma_div_is_ordered(len + p - 1, p * c + (p - 1), p);
    vstd::arithmetic::div_mod::lemma_fundamental_div_mod_converse(p * c + (p - 1), p, c, p - 1);
}
/// 2^po <= 64 for po <= 6 (what `.min(MAX_PARTITIONS.ilog2())` guarantees for MAX_PARTITIONS == 64)
pub proof fn l_pow2_le_64(po: nat)
    requires po <= 6
    ensures vstd::arithmetic::power2::pow2(po) <= 64
{
    vstd::arithmetic::power2::lemma2_to64();
    if po < 6 { vstd::arithmetic::power2::lemma_pow2_strictly_increases(po, 6); }
}
