// spec-level meaning of the header code enums (RFC 9639 §9.1.1, §9.1.2)
pub open spec fn bs_value(b: BlockSize<u16>) -> int {
    match b {
        BlockSize::Samples192 => 192,
        BlockSize::Samples576 => 576,
        BlockSize::Samples1152 => 1152,
        BlockSize::Samples2304 => 2304,
        BlockSize::Samples4608 => 4608,
        BlockSize::Samples256 => 256,
        BlockSize::Samples512 => 512,
        BlockSize::Samples1024 => 1024,
        BlockSize::Samples2048 => 2048,
        BlockSize::Samples4096 => 4096,
        BlockSize::Samples8192 => 8192,
        BlockSize::Samples16384 => 16384,
        BlockSize::Samples32768 => 32768,
        BlockSize::Uncommon8(s) => s as int,
        BlockSize::Uncommon16(s) => s as int,
    }
}
/// the value fits the trailing field its code announces (8-bit: value - 1 in 8 bits; 16-bit: value - 1 in 16 bits)
pub open spec fn bs_wf(b: BlockSize<u16>) -> bool {
    match b {
        BlockSize::Uncommon8(s) => 1 <= s <= 256,
        BlockSize::Uncommon16(s) => 1 <= s,
        _ => true,
    }
}
pub open spec fn sr_value(r: SampleRate<u32>) -> int {
    match r {
        SampleRate::Streaminfo(u) => u as int,
        SampleRate::KHz(u) => u as int,
        SampleRate::Hz(u) => u as int,
        SampleRate::DHz(u) => u as int,
        SampleRate::Hz88200 => 88200,
        SampleRate::Hz176400 => 176400,
        SampleRate::Hz192000 => 192000,
        SampleRate::Hz8000 => 8000,
        SampleRate::Hz16000 => 16000,
        SampleRate::Hz22050 => 22050,
        SampleRate::Hz24000 => 24000,
        SampleRate::Hz32000 => 32000,
        SampleRate::Hz44100 => 44100,
        SampleRate::Hz48000 => 48000,
        SampleRate::Hz96000 => 96000,
    }
}
/// the value is representable in the trailing field its code announces
pub open spec fn sr_wf(r: SampleRate<u32>) -> bool {
    match r {
        SampleRate::KHz(u) => u % 1000 == 0 && u / 1000 <= 255,
        SampleRate::Hz(u) => u <= 65535,
        SampleRate::DHz(u) => u % 10 == 0 && u / 10 <= 65535,
        SampleRate::Streaminfo(u) => u < 1048576,
        _ => true,
    }
}
