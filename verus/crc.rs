// CRC-16 / CRC-8 as bitwise polynomial division (RFC 9639 §9.1.8, §9.3), and the detection lemmas.
// The executable twin lives in /verif/spec/spec.rs (crc8_step / crc16_step) and is what the Kani
// obligations K-crc8-spec / K-crc16-spec prove the crate's table-driven update equal to.

pub open spec fn b16(s: u16) -> u16 { if s & 0x8000 != 0 { (s << 1) ^ 0x8005 } else { s << 1 } }
pub open spec fn crc16_step(state: u16, byte: u8) -> u16 {
    b16(b16(b16(b16(b16(b16(b16(b16(state ^ ((byte as u16) << 8)))))))))
}
pub open spec fn b8(s: u8) -> u8 { if s & 0x80 != 0 { (s << 1) ^ 0x07 } else { s << 1 } }
pub open spec fn crc8_step(state: u8, byte: u8) -> u8 {
    b8(b8(b8(b8(b8(b8(b8(b8(state ^ byte))))))))
}

pub open spec fn crc16(state: u16, m: Seq<u8>) -> u16 decreases m.len() {
    if m.len() == 0 { state } else { crc16(crc16_step(state, m[0]), m.subrange(1, m.len() as int)) }
}
pub open spec fn crc8(state: u8, m: Seq<u8>) -> u8 decreases m.len() {
    if m.len() == 0 { state } else { crc8(crc8_step(state, m[0]), m.subrange(1, m.len() as int)) }
}

// ---- one-step facts, by bit-vector reasoning
proof fn l16_bit_injective(a: u16, b: u16) by (bit_vector)
    ensures (if a & 0x8000 != 0 { (a << 1) ^ 0x8005 } else { a << 1 }) == (if b & 0x8000 != 0 { (b << 1) ^ 0x8005 } else { b << 1 }) ==> a == b
{}
proof fn l8_bit_injective(a: u8, b: u8) by (bit_vector)
    ensures (if a & 0x80 != 0 { (a << 1) ^ 0x07 } else { a << 1 }) == (if b & 0x80 != 0 { (b << 1) ^ 0x07 } else { b << 1 }) ==> a == b
{}
proof fn l16_xor_in(s1: u16, s2: u16, x: u8, y: u8) by (bit_vector)
    ensures (s1 ^ ((x as u16) << 8)) == (s2 ^ ((y as u16) << 8)) && s1 == s2 ==> x == y
{}
proof fn l16_xor_state(s1: u16, s2: u16, x: u8) by (bit_vector)
    ensures (s1 ^ ((x as u16) << 8)) == (s2 ^ ((x as u16) << 8)) ==> s1 == s2
{}
proof fn l8_xor(s1: u8, s2: u8, x: u8, y: u8) by (bit_vector)
    ensures (s1 ^ x) == (s2 ^ y) ==> (s1 == s2 <==> x == y)
{}

/// the step function is injective in the state for a fixed byte, and in the byte for a fixed state
pub proof fn crc16_step_injective(s1: u16, s2: u16, x: u8, y: u8)
    ensures crc16_step(s1, x) == crc16_step(s2, x) ==> s1 == s2,
            crc16_step(s1, x) == crc16_step(s1, y) ==> x == y,
{
    let f = |v: u16| b16(v);
    assert forall|a: u16, b: u16| b16(a) == b16(b) implies a == b by { l16_bit_injective(a, b); }
    let t1 = s1 ^ ((x as u16) << 8);
    let t2 = s2 ^ ((x as u16) << 8);
    let t3 = s1 ^ ((y as u16) << 8);
    if crc16_step(s1, x) == crc16_step(s2, x) {
        assert(t1 == t2);
        l16_xor_state(s1, s2, x);
    }
    if crc16_step(s1, x) == crc16_step(s1, y) {
        assert(t1 == t3);
        l16_xor_in(s1, s1, x, y);
    }
}
pub proof fn crc8_step_injective(s1: u8, s2: u8, x: u8, y: u8)
    ensures crc8_step(s1, x) == crc8_step(s2, x) ==> s1 == s2,
            crc8_step(s1, x) == crc8_step(s1, y) ==> x == y,
{
    assert forall|a: u8, b: u8| b8(a) == b8(b) implies a == b by { l8_bit_injective(a, b); }
    if crc8_step(s1, x) == crc8_step(s2, x) { assert(s1 ^ x == s2 ^ x); l8_xor(s1, s2, x, x); }
    if crc8_step(s1, x) == crc8_step(s1, y) { assert(s1 ^ x == s1 ^ y); l8_xor(s1, s1, x, y); }
}

/// L-CRC16 (state form): over the same bytes, different states stay different — a difference never cancels
pub proof fn crc16_state_diff(s1: u16, s2: u16, m: Seq<u8>)
    requires s1 != s2
    ensures crc16(s1, m) != crc16(s2, m)
    decreases m.len()
{
    if m.len() > 0 {
        crc16_step_injective(s1, s2, m[0], m[0]);
        crc16_state_diff(crc16_step(s1, m[0]), crc16_step(s2, m[0]), m.subrange(1, m.len() as int));
    }
}
pub proof fn crc8_state_diff(s1: u8, s2: u8, m: Seq<u8>)
    requires s1 != s2
    ensures crc8(s1, m) != crc8(s2, m)
    decreases m.len()
{
    if m.len() > 0 {
        crc8_step_injective(s1, s2, m[0], m[0]);
        crc8_state_diff(crc8_step(s1, m[0]), crc8_step(s2, m[0]), m.subrange(1, m.len() as int));
    }
}

/// L-CRC16: two frames of equal length that differ in exactly one byte (in particular: one flipped bit)
/// cannot both have a zero CRC-16 — so a damaged frame whose parse length is unchanged is always detected.
pub proof fn crc16_detects_single_byte_change(m1: Seq<u8>, m2: Seq<u8>, k: int)
    requires m1.len() == m2.len(), 0 <= k < m1.len(), m1[k] != m2[k],
             forall|i: int| 0 <= i < m1.len() && i != k ==> m1[i] == m2[i],
    ensures forall|s: u16| crc16(s, m1) != crc16(s, m2)
    decreases m1.len()
{
    assert forall|s: u16| crc16(s, m1) != crc16(s, m2) by {
        crc16_single(s, m1, m2, k);
    }
}
proof fn crc16_single(s: u16, m1: Seq<u8>, m2: Seq<u8>, k: int)
    requires m1.len() == m2.len(), 0 <= k < m1.len(), m1[k] != m2[k],
             forall|i: int| 0 <= i < m1.len() && i != k ==> m1[i] == m2[i],
    ensures crc16(s, m1) != crc16(s, m2)
    decreases m1.len()
{
    let t1 = m1.subrange(1, m1.len() as int);
    let t2 = m2.subrange(1, m2.len() as int);
    if k == 0 {
        crc16_step_injective(s, s, m1[0], m2[0]);
        assert(t1 =~= t2);
        crc16_state_diff(crc16_step(s, m1[0]), crc16_step(s, m2[0]), t1);
    } else {
        assert(m1[0] == m2[0]);
        assert forall|i: int| 0 <= i < t1.len() && i != k - 1 implies t1[i] == t2[i] by { assert(t1[i] == m1[i + 1]); assert(t2[i] == m2[i + 1]); }
        assert(t1[k - 1] == m1[k] && t2[k - 1] == m2[k]);
        crc16_single(crc16_step(s, m1[0]), t1, t2, k - 1);
    }
}
proof fn crc8_single(s: u8, m1: Seq<u8>, m2: Seq<u8>, k: int)
    requires m1.len() == m2.len(), 0 <= k < m1.len(), m1[k] != m2[k],
             forall|i: int| 0 <= i < m1.len() && i != k ==> m1[i] == m2[i],
    ensures crc8(s, m1) != crc8(s, m2)
    decreases m1.len()
{
    let t1 = m1.subrange(1, m1.len() as int);
    let t2 = m2.subrange(1, m2.len() as int);
    if k == 0 {
        crc8_step_injective(s, s, m1[0], m2[0]);
        assert(t1 =~= t2);
        crc8_state_diff(crc8_step(s, m1[0]), crc8_step(s, m2[0]), t1);
    } else {
        assert(m1[0] == m2[0]);
        assert forall|i: int| 0 <= i < t1.len() && i != k - 1 implies t1[i] == t2[i] by { assert(t1[i] == m1[i + 1]); assert(t2[i] == m2[i + 1]); }
        assert(t1[k - 1] == m1[k] && t2[k - 1] == m2[k]);
        crc8_single(crc8_step(s, m1[0]), t1, t2, k - 1);
    }
}
/// L-CRC8: the same for the frame header's CRC-8
pub proof fn crc8_detects_single_byte_change(m1: Seq<u8>, m2: Seq<u8>, k: int)
    requires m1.len() == m2.len(), 0 <= k < m1.len(), m1[k] != m2[k],
             forall|i: int| 0 <= i < m1.len() && i != k ==> m1[i] == m2[i],
    ensures crc8(0u8, m1) != crc8(0u8, m2)
{
    crc8_single(0u8, m1, m2, k);
}
