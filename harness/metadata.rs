// harnesses for crate::metadata (child module: sees private items)
#![allow(dead_code, unused_imports)]
use super::*;
