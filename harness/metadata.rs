// harnesses for crate::metadata (child module: sees private items)
#![allow(dead_code, unused_imports)]
use super::*;
use crate::verif_k::bits::BitBuf;
use crate::verif_k::spec;
use crate::verif_k::{vk_assert, vk_undecided};

// ------------------------------------------------------------------ STREAMINFO (RFC 9639 §8.2)
//
// contract, all 272-bit strings:  from_reader => Ok(s) with every field equal to its bit slice
//   (16/16/24/24/20/3/5/36/128 bits; frame sizes and total 0 => None, bits-per-sample = code + 1,
//   channels = code + 1, all-zero MD5 => None);  to_writer(s) reproduces the 272 bits exactly; never panics
#[kani::proof]
#[kani::unwind(18)]
pub(crate) fn k_streaminfo_roundtrip_all_bits() {
    let mut b: BitBuf<5> = BitBuf::any();
    b.len = 272;
    let orig = b.clone();
    let s = match <Streaminfo as FromBitStream>::from_reader(&mut b) {
        Ok(s) => s,
        Err(_) => { vk_assert!(false, "STREAMINFO parse of 34 available bytes failed"); return; }
    };
    vk_assert!(b.pos == 272, "STREAMINFO is exactly 34 bytes");
    vk_assert!(s.minimum_block_size as u64 == orig.peek(0, 16) && s.maximum_block_size as u64 == orig.peek(16, 16), "block sizes are the first two 16-bit fields");
    vk_assert!(s.minimum_frame_size.map_or(0, |v| v.get()) as u64 == orig.peek(32, 24) && s.maximum_frame_size.map_or(0, |v| v.get()) as u64 == orig.peek(56, 24), "frame sizes: 24 bits each, 0 = unknown");
    vk_assert!(s.sample_rate as u64 == orig.peek(80, 20), "20-bit sample rate");
    vk_assert!(s.channels.get() as u64 == orig.peek(100, 3) + 1, "3-bit channel count minus one");
    vk_assert!(u32::from(s.bits_per_sample) as u64 == orig.peek(103, 5) + 1, "5-bit bits-per-sample minus one");
    vk_assert!(s.total_samples.map_or(0, |v| v.get()) == orig.peek(108, 36), "36-bit total samples, 0 = unknown");
    let md5_hi = orig.peek(144, 64);
    let md5_lo = orig.peek(208, 64);
    vk_assert!(s.md5.is_none() == (md5_hi == 0 && md5_lo == 0), "all-zero MD5 means not computed");
    if let Some(m) = s.md5 {
        vk_assert!(u64::from_be_bytes([m[0], m[1], m[2], m[3], m[4], m[5], m[6], m[7]]) == md5_hi
            && u64::from_be_bytes([m[8], m[9], m[10], m[11], m[12], m[13], m[14], m[15]]) == md5_lo, "MD5 bytes in stream order");
    }
    let mut out: BitBuf<5> = BitBuf::empty();
    let w = <Streaminfo as ToBitStream>::to_writer(&s, &mut out);
    vk_assert!(w.is_ok() && out.len == 272, "STREAMINFO serialises to exactly 34 bytes");
    vk_assert!(out.limbs[0] == orig.limbs[0] && out.limbs[1] == orig.limbs[1] && out.limbs[2] == orig.limbs[2]
        && out.limbs[3] == orig.limbs[3] && out.peek(256, 16) == orig.peek(256, 16), "parse then serialise reproduces the block byte for byte");
    vk_assert!(s.bytes() == Some(BlockSize(34)), "reported size is the serialised size");
}

// ------------------------------------------------------------------ block header, seek point
#[kani::proof]
#[kani::unwind(4)]
pub(crate) fn k_block_header_roundtrip_all_bits() {
    let mut b: BitBuf<1> = BitBuf::any();
    b.len = 32;
    let orig = b.clone();
    let r = <BlockHeader as FromBitStream>::from_reader(&mut b);
    let ty = orig.peek(1, 7);
    match r {
        Ok(h) => {
            vk_assert!(ty <= 6, "reserved / invalid block type accepted");
            vk_assert!(h.last == (orig.peek(0, 1) == 1) && h.block_type as u64 == ty && h.size.get() as u64 == orig.peek(8, 24), "last flag, 7-bit type, 24-bit size");
            let mut out: BitBuf<1> = BitBuf::empty();
            vk_assert!(<BlockHeader as ToBitStream>::to_writer(&h, &mut out).is_ok() && out.len == 32 && out.peek(0, 32) == orig.peek(0, 32), "header serialises back to the same 4 bytes");
        }
        Err(_) => { vk_assert!(ty > 6, "valid block header rejected"); }
    }
}

#[kani::proof]
#[kani::unwind(10)]
pub(crate) fn k_seekpoint_roundtrip_all_bits() {
    let mut b: BitBuf<3> = BitBuf::any();
    b.len = 144;
    let orig = b.clone();
    let p = match <SeekPoint as FromBitStream>::from_reader(&mut b) {
        Ok(p) => p,
        Err(_) => { vk_assert!(false, "seek point parse of 18 available bytes failed"); return; }
    };
    vk_assert!(b.pos == 144, "a seek point is exactly 18 bytes");
    let so = orig.peek(0, 64);
    match &p {
        SeekPoint::Placeholder => vk_assert!(so == u64::MAX, "placeholder iff sample number is all ones"),
        SeekPoint::Defined { sample_offset, byte_offset, frame_samples } => {
            vk_assert!(so != u64::MAX && *sample_offset == so && *byte_offset == orig.peek(64, 64) && *frame_samples as u64 == orig.peek(128, 16), "64-bit sample, 64-bit offset, 16-bit length");
        }
    }
    let mut out: BitBuf<3> = BitBuf::empty();
    vk_assert!(<SeekPoint as ToBitStream>::to_writer(&p, &mut out).is_ok() && out.len == 144, "a seek point serialises to 18 bytes");
    if so != u64::MAX {
        vk_assert!(out.limbs[0] == orig.limbs[0] && out.limbs[1] == orig.limbs[1] && out.peek(128, 16) == orig.peek(128, 16), "defined point reproduced byte for byte");
    } else {
        vk_assert!(out.limbs[0] == u64::MAX, "placeholder keeps the all-ones sample number");
    }
}

// contract SeekPoint build -> parse: every point that can be serialised parses back to itself
#[kani::proof]
#[kani::unwind(10)]
pub(crate) fn k_seekpoint_build_parse() {
    let p = if kani::any() { SeekPoint::Placeholder } else { SeekPoint::Defined { sample_offset: kani::any(), byte_offset: kani::any(), frame_samples: kani::any() } };
    let mut out: BitBuf<3> = BitBuf::empty();
    let w = <SeekPoint as ToBitStream>::to_writer(&p, &mut out);
    if w.is_ok() {
        out.rewind();
        let q = <SeekPoint as FromBitStream>::from_reader(&mut out);
        vk_assert!(matches!(q, Ok(ref q) if *q == p), "a seek point that serialises must parse back to the same point");
    }
}

// adjacency rule shared by reader (Contiguous) and writer: strictly ascending defined points, placeholders only at the end
#[kani::proof]
pub(crate) fn k_seekpoint_is_next() {
    use contiguous::Adjacent;
    let mk = || if kani::any() { SeekPoint::Placeholder } else { SeekPoint::Defined { sample_offset: kani::any(), byte_offset: kani::any(), frame_samples: kani::any() } };
    let prev = mk();
    let next = mk();
    let ok = next.is_next(&prev);
    let want = match (&prev, &next) {
        (_, SeekPoint::Placeholder) => true,
        (SeekPoint::Placeholder, SeekPoint::Defined { .. }) => false,
        (SeekPoint::Defined { sample_offset: a, .. }, SeekPoint::Defined { sample_offset: b, .. }) => b > a,
    };
    vk_assert!(ok == want && next.valid_first(), "seek points: ascending sample numbers, placeholders only after defined points");
}

// ------------------------------------------------------------------ sizes (BlockSize / BlockBits arithmetic, C10 / C11)
#[kani::proof]
pub(crate) fn k_blocksize_arith() {
    let a: u32 = kani::any();
    let b: u32 = kani::any();
    kani::assume(a <= BlockSize::MAX && b <= BlockSize::MAX);
    let (x, y) = (BlockSize(a), BlockSize(b));
    match x.checked_add(y) {
        Some(s) => vk_assert!(s.get() == a + b && a + b <= BlockSize::MAX, "checked_add: exact sum within 24 bits"),
        None => vk_assert!(a as u64 + b as u64 > BlockSize::MAX as u64, "checked_add fails only beyond 24 bits"),
    }
    match x.checked_sub(y) {
        Some(s) => vk_assert!(a >= b && s.get() == a - b, "checked_sub: exact difference"),
        None => vk_assert!(a < b, "checked_sub fails only below zero"),
    }
    let v: u64 = kani::any();
    vk_assert!(BlockSize::try_from(v).is_ok() == (v <= BlockSize::MAX as u64), "BlockSize holds exactly the 24-bit values");
    let w: u32 = kani::any();
    vk_assert!(BlockSize::try_from(w).is_ok() == (w <= BlockSize::MAX), "BlockSize holds exactly the 24-bit values");
    let p = Padding { size: x };
    vk_assert!(p.bytes() == Some(x), "PADDING payload size is its size field");
    vk_assert!(p.total_size().map(|s| s.get()) == if a + 4 <= BlockSize::MAX { Some(a + 4) } else { None }, "total size adds the 4 header bytes");
}

#[kani::proof]
pub(crate) fn k_blockbits_counter() {
    use bitstream_io::write::Counter;
    let a: u32 = kani::any();
    let b: u32 = kani::any();
    kani::assume(a <= BlockBits::MAX);
    let mut c = BlockBits(a);
    let r = c.checked_add_assign(BlockBits(b));
    vk_assert!(r.is_ok() == (a as u64 + b as u64 <= BlockBits::MAX as u64), "bit counter overflows exactly beyond a 24-bit byte count");
    if r.is_ok() { vk_assert!(c.0 == a + b, "bit counter adds exactly"); }
    let m = BlockBits(a).checked_mul(BlockBits(b));
    vk_assert!(m.is_ok() == (a as u64 * b as u64 <= BlockBits::MAX as u64), "bit counter multiplication overflows exactly beyond the limit");
    vk_assert!(BlockBits::try_from(b).is_ok() == (b <= BlockBits::MAX), "bit counter construction is range checked");
}

// ------------------------------------------------------------------ accessors (C12)
#[kani::proof]
pub(crate) fn k_metadata_accessors() {
    // a division by a symbolic 64-bit rate does not finish; the rate ranges over representative values incl. 0
    let rate: u32 = match kani::any::<u8>() % 5 { 0 => 0, 1 => 1, 2 => 44100, 3 => 96000, _ => (1 << 20) - 1 };
    let total: u64 = kani::any();
    kani::assume(total < (1 << 36));
    let ch: u8 = kani::any();
    kani::assume(ch >= 1 && ch <= 8);
    let bps: u32 = kani::any();
    kani::assume(bps >= 1 && bps <= 32);
    let s = Streaminfo { minimum_block_size: kani::any(), maximum_block_size: kani::any(), minimum_frame_size: None, maximum_frame_size: None,
        sample_rate: rate, channels: NonZero::new(ch).unwrap(), bits_per_sample: SignedBitCount::<32>::try_from(bps).unwrap(),
        total_samples: NonZero::new(total), md5: None };
    let len = s.decoded_len();
    vk_assert!(len == if total == 0 { None } else { Some(total * ch as u64 * bps.div_ceil(8) as u64) }, "decoded_len = samples x channels x bytes per sample");
    let d = s.duration();
    if total != 0 && rate != 0 {
        let d = d.unwrap();
        vk_assert!(d.as_secs() == total / rate as u64, "duration seconds = samples / rate");
    } else {
        vk_assert!(d.is_none(), "no duration without a sample count or with a zero sample rate");
    }
    let m = s.channel_mask();
    vk_assert!(m.mask.count_ones() == ch as u32, "default channel mask has one bit per channel");
}

// ------------------------------------------------------------------ picture sniffers (C12): arbitrary bytes never panic
#[kani::proof]
#[kani::unwind(40)]
pub(crate) fn k_picture_png_total() {
    let mut data: [u8; 33] = kani::any();
    data[0] = 0x89; data[1] = 0x50; data[2] = 0x4E; data[3] = 0x47; data[4] = 0x0D; data[5] = 0x0A; data[6] = 0x1A; data[7] = 0x0A;
    let r = PictureMetrics::try_png(&data);
    if let Ok(m) = r {
        let depth = data[24] as u32;
        let want = match data[25] { 0 => depth, 2 => depth * 3, 4 => depth * 2, 6 => depth * 4, _ => 0 };
        vk_assert!(data[25] == 3 || m.color_depth == want, "PNG colour depth = bit depth x channels");
        vk_assert!(m.width == u32::from_be_bytes([data[16], data[17], data[18], data[19]]), "PNG width from IHDR");
    }
}

#[kani::proof]
#[kani::unwind(12)]
pub(crate) fn k_picture_jpeg_total() {
    let mut data: [u8; 11] = kani::any();
    data[0] = 0xFF; data[1] = 0xD8;
    let r = PictureMetrics::try_jpeg(&data);
    if let Ok(m) = r {
        vk_assert!(m.color_depth <= 255 * 255, "JPEG colour depth = precision x components");
    }
}

#[kani::proof]
#[kani::unwind(16)]
pub(crate) fn k_picture_gif_total() {
    let data: [u8; 11] = kani::any();
    let _ = PictureMetrics::try_gif(&data);
}

// duration() at the extremes of STREAMINFO's ranges (concrete values: exact seconds and nanoseconds, no overflow)
#[kani::proof]
pub(crate) fn k_metadata_duration_extremes() {
    let totals: [u64; 4] = [1, 44100, (1 << 36) - 1, 18_446_744_074];
    let rates: [u32; 4] = [1, 44100, 96000, (1 << 20) - 1];
    let ti: usize = kani::any();
    let ri: usize = kani::any();
    kani::assume(ti < 4 && ri < 4);
    let (total, rate) = (totals[ti], rates[ri]);
    let s = Streaminfo { minimum_block_size: 16, maximum_block_size: 16, minimum_frame_size: None, maximum_frame_size: None,
        sample_rate: rate, channels: NonZero::new(2).unwrap(), bits_per_sample: SignedBitCount::<32>::new::<16>(),
        total_samples: NonZero::new(total), md5: None };
    let d = s.duration().unwrap();
    vk_assert!(d.as_secs() == total / rate as u64, "duration: whole seconds = samples / rate, up to the largest 36-bit sample count");
    vk_assert!(d.subsec_nanos() as u64 == (total % rate as u64) * 1_000_000_000 / rate as u64, "duration: nanoseconds from the remainder");
}

// ------------------------------------------------------------------ PADDING, APPLICATION, PICTURE type (C11 / C12)
// contract PADDING: parse(size) skips exactly size bytes and yields Padding{size}; serialising writes exactly size zero bytes
#[kani::proof]
#[kani::unwind(4)]
pub(crate) fn k_padding_roundtrip() {
    let size: u32 = kani::any();
    kani::assume(size <= 64);
    let mut b: BitBuf<8> = BitBuf::any();
    let avail = b.len;
    let r = <Padding as FromBitStreamUsing>::from_reader(&mut b, BlockSize(size));
    match r {
        Ok(p) => {
            vk_assert!(size * 8 <= avail && b.pos == size * 8 && p.size.get() == size, "PADDING consumes exactly its size and remembers it");
            let mut out: BitBuf<8> = BitBuf::empty();
            vk_assert!(<Padding as ToBitStream>::to_writer(&p, &mut out).is_ok() && out.len == size * 8, "PADDING serialises to exactly size bytes");
            vk_assert!(out.limbs[0] == 0 && out.limbs[7] == 0, "padding bytes are zero");
            vk_assert!(p.bytes() == Some(BlockSize(size)), "reported size == serialised size");
        }
        Err(_) => vk_assert!(size * 8 > avail, "PADDING fails only when the stream is too short"),
    }
}

// contract APPLICATION (payload of 2 bytes): id (32 bits) then the payload; a declared size below 4 is InsufficientApplicationBlock;
// serialising reproduces the bytes; reported size == 4 + payload
#[kani::proof]
#[kani::unwind(8)]
pub(crate) fn k_application_roundtrip() {
    let mut b: BitBuf<1> = BitBuf::any();
    b.len = 48;
    let orig = b.clone();
    let size: u32 = kani::any();
    kani::assume(size <= 6);
    let r = <Application as FromBitStreamUsing>::from_reader(&mut b, BlockSize(size));
    match r {
        Ok(a) => {
            vk_assert!(size >= 4 && a.id as u64 == orig.peek(0, 32) && a.data.len() == (size - 4) as usize && b.pos == size * 8, "APPLICATION: 32-bit id, then size - 4 payload bytes");
            let mut out: BitBuf<1> = BitBuf::empty();
            vk_assert!(<Application as ToBitStream>::to_writer(&a, &mut out).is_ok() && out.len == size * 8 && out.peek(0, size * 8) == orig.peek(0, size * 8), "APPLICATION serialises back to the same bytes");
            vk_assert!(a.bytes() == Some(BlockSize(size)), "reported size == serialised size");
        }
        Err(e) => vk_assert!(size < 4 && matches!(e, Error::InsufficientApplicationBlock), "APPLICATION smaller than its id is rejected"),
    }
}

// contract PICTURE type: codes 0..=20 map one to one onto the 21 picture types and back; everything else is InvalidPictureType
#[kani::proof]
#[kani::unwind(6)]
pub(crate) fn k_picture_type_table() {
    let mut b: BitBuf<1> = BitBuf::any();
    b.len = 32;
    let code = b.peek(0, 32);
    let r = <PictureType as FromBitStream>::from_reader(&mut b);
    match r {
        Ok(t) => {
            vk_assert!(code <= 20, "reserved picture type accepted");
            let mut out: BitBuf<1> = BitBuf::empty();
            vk_assert!(<PictureType as ToBitStream>::to_writer(&t, &mut out).is_ok() && out.len == 32 && out.peek(0, 32) == code, "picture type serialises back to its code");
        }
        Err(_) => vk_assert!(code > 20, "valid picture type rejected"),
    }
}

// ---- ChannelMask::from_str is total on short tag values (C12) ----
#[kani::proof]
#[kani::unwind(8)]
pub(crate) fn k_channel_mask_from_str_total() {
    use std::str::FromStr;
    let b: [u8; 4] = kani::any();
    let len: usize = kani::any();
    kani::assume(len <= 4);
    if let Ok(s) = std::str::from_utf8(&b[..len]) {
        let r = ChannelMask::from_str(s);
        // functional part for the plain form "0x" + hex digits
        let hexv = |c: u8| -> Option<u32> { match c { b'0'..=b'9' => Some((c - b'0') as u32), b'a'..=b'f' => Some((c - b'a' + 10) as u32), b'A'..=b'F' => Some((c - b'A' + 10) as u32), _ => None } };
        if len == 4 && b[0] == b'0' && b[1] == b'x' {
            if let (Some(h), Some(l)) = (hexv(b[2]), hexv(b[3])) {
                vk_assert!(matches!(r, Ok(ChannelMask { mask }) if mask == h * 16 + l), "\"0x\" followed by hex digits parses to that number");
            }
        }
        if len < 2 || b[0] != b'0' {
            vk_assert!(r.is_err(), "text without the 0x prefix is rejected, not a panic");
        }
    }
}

// ---- BlockIterator::next: block sequencing rules of RFC 9639 8 (C11 / C12) ----
// contract (the block parser read_block is replaced by a script of block kinds; the fLaC tag is real):
//   the first block must be STREAMINFO, else MissingStreaminfo and nothing more;
//   a second STREAMINFO is MultipleStreaminfo; a second SEEKTABLE / VORBIS_COMMENT / 32x32 PNG icon / general file icon is
//   the corresponding Multiple* error and ends the iteration; one icon of each kind is fine (the two kinds are independent);
//   every other block passes; a parse error is passed on and ends the iteration
use std::sync::atomic::{AtomicUsize as MAtomicUsize, Ordering::Relaxed as MRelaxed};
static G_BI_SCRIPT: [MAtomicUsize; 4] = [const { MAtomicUsize::new(0) }; 4];
static G_BI_POS: MAtomicUsize = MAtomicUsize::new(0);
const BK_STREAMINFO: usize = 0;
const BK_SEEKTABLE: usize = 1;
const BK_VORBIS: usize = 2;
const BK_PNG_ICON: usize = 3;
const BK_GENERAL_ICON: usize = 4;
const BK_FRONT_COVER: usize = 5;
const BK_PADDING: usize = 6;
const BK_ERROR: usize = 7;
fn mk_picture(t: PictureType) -> Block {
    Block::Picture(Picture { picture_type: t, media_type: String::new(), description: String::new(), width: 0, height: 0, color_depth: 0, colors_used: None, data: Vec::new() })
}
fn stub_read_block<R: std::io::Read>(_it: &mut BlockIterator<R>) -> Option<Result<Block, Error>> {
    let pos = G_BI_POS.fetch_add(1, MRelaxed);
    if pos >= 4 { return None; }
    Some(match G_BI_SCRIPT[pos].load(MRelaxed) {
        BK_STREAMINFO => Ok(Block::Streaminfo(Streaminfo { minimum_block_size: 16, maximum_block_size: 16, minimum_frame_size: None, maximum_frame_size: None,
            sample_rate: 44100, channels: NonZero::new(1).unwrap(), bits_per_sample: SignedBitCount::new::<16>(), total_samples: None, md5: None })),
        BK_SEEKTABLE => Ok(Block::SeekTable(SeekTable { points: contiguous::Contiguous::default() })),
        BK_VORBIS => Ok(Block::VorbisComment(VorbisComment { vendor_string: String::new(), fields: Vec::new() })),
        BK_PNG_ICON => Ok(mk_picture(PictureType::Png32x32)),
        BK_GENERAL_ICON => Ok(mk_picture(PictureType::GeneralFileIcon)),
        BK_FRONT_COVER => Ok(mk_picture(PictureType::FrontCover)),
        BK_PADDING => Ok(Block::Padding(Padding { size: BlockSize::try_from(0u32).unwrap() })),
        _ => Err(Error::InvalidMetadataBlockSize),
    })
}
fn outcome(item: Option<Result<Block, Error>>) -> usize {
    // 0..=6: Ok(block of that kind); 10: None; 11.. errors
    let r = match &item {
        None => 10,
        Some(Ok(Block::Streaminfo(_))) => BK_STREAMINFO,
        Some(Ok(Block::SeekTable(_))) => BK_SEEKTABLE,
        Some(Ok(Block::VorbisComment(_))) => BK_VORBIS,
        Some(Ok(Block::Picture(p))) => match p.picture_type { PictureType::Png32x32 => BK_PNG_ICON, PictureType::GeneralFileIcon => BK_GENERAL_ICON, _ => BK_FRONT_COVER },
        Some(Ok(_)) => BK_PADDING,
        Some(Err(Error::MissingStreaminfo)) => 11,
        Some(Err(Error::MultipleStreaminfo)) => 12,
        Some(Err(Error::MultipleSeekTable)) => 13,
        Some(Err(Error::MultipleVorbisComment)) => 14,
        Some(Err(Error::MultiplePngIcon)) => 15,
        Some(Err(Error::MultipleGeneralIcon)) => 16,
        Some(Err(Error::InvalidMetadataBlockSize)) => 17,
        Some(Err(_)) => 18,
    };
    std::mem::forget(item);
    r
}

macro_rules! k_block_iterator {
    ($name:ident, $first_is_streaminfo:expr, $icons_only:expr) => {
#[kani::proof]
#[kani::unwind(6)]
#[kani::stub(BlockIterator::read_block, stub_read_block)]
pub(crate) fn $name() {
    let mut k: [u8; 3] = kani::any();
    kani::assume(k[0] < 8 && k[1] < 8 && k[2] < 8);
    if $first_is_streaminfo { k[0] = BK_STREAMINFO as u8; } else { kani::assume(k[0] != BK_STREAMINFO as u8); }
    if $icons_only { kani::assume(k[1] >= 3 && k[1] <= 5 && k[2] >= 3 && k[2] <= 5); }
    G_BI_SCRIPT[0].store(k[0] as usize, MRelaxed);
    G_BI_SCRIPT[1].store(k[1] as usize, MRelaxed);
    G_BI_SCRIPT[2].store(k[2] as usize, MRelaxed);
    G_BI_SCRIPT[3].store(BK_PADDING, MRelaxed);
    let mut it = BlockIterator::new(&b"fLaC"[..]);
    let o0 = outcome(it.next());
    let o1 = outcome(it.next());
    let o2 = outcome(it.next());
    let (k0, k1, k2) = (k[0] as usize, k[1] as usize, k[2] as usize);
    if k0 != BK_STREAMINFO {
        vk_assert!(o0 == 11 && o1 == 10 && o2 == 10, "a stream whose first block is not STREAMINFO is MissingStreaminfo, and nothing more is read");
        return;
    }
    vk_assert!(o0 == BK_STREAMINFO, "the leading STREAMINFO block is passed on");
    // second block
    let unique = |k: usize| k == BK_SEEKTABLE || k == BK_VORBIS || k == BK_PNG_ICON || k == BK_GENERAL_ICON;
    let exp1 = if k1 == BK_STREAMINFO { 12 } else if k1 == BK_ERROR { 17 } else { k1 };
    vk_assert!(o1 == exp1, "second block: passed on; a second STREAMINFO is MultipleStreaminfo; a parse error is passed on");
    // third block
    let ended = k1 == BK_ERROR;
    let exp2 = if ended { 10 }
        else if k2 == BK_STREAMINFO { 12 }
        else if k2 == BK_ERROR { 17 }
        else if unique(k2) && k2 == k1 { 11 + k2 + 1 }
        else { k2 };
    vk_assert!(o2 == exp2, "third block: a repeated SEEKTABLE / VORBIS_COMMENT / PNG icon / general icon is the matching Multiple* error, two different kinds (incl. one icon of each kind) are both passed on; nothing follows a parse error");
}
    };
}
k_block_iterator!(k_block_iterator_icons, true, true);
k_block_iterator!(k_block_iterator_all_kinds, true, false);
k_block_iterator!(k_block_iterator_no_streaminfo, false, false);
