// harnesses for crate::encode (child module: sees private items)
#![allow(dead_code, unused_imports)]
use super::*;
use crate::verif_k::spec;
use crate::verif_k::specenc::{self, PKind};
use crate::verif_k::tape::{Tape, K_S, K_U, K_UN1};
use crate::verif_k::{vk_assert, vk_undecided};
use std::sync::atomic::{AtomicI64, AtomicUsize, Ordering::Relaxed};

fn any_i64_within(bits: u32) -> i64 {
    let v: i64 = kani::any();
    kani::assume(spec::fits(v, bits));
    v
}
fn sbc<const MAX: u32>(bits: u32) -> SignedBitCount<MAX> {
    match SignedBitCount::<MAX>::try_from(bits) {
        Ok(c) => c,
        Err(_) => {
            kani::assume(false);
            unreachable!()
        }
    }
}

// ------------------------------------------------------------------ LpcSubframeParameters::encode_residuals
//
// contract (RFC 9639 §9.2.6, encoder side): for any parameters (order, shift <= 31, coefficients) and samples x
//   Ok((warm_up, res)) => warm_up == x[..order], res[i] == x[order+i] - ((Σ x[order+i-1-j]·c[j]) >> shift) exactly (no wrap)
//   Err(ResidualOverflow) only if some such residual does not fit i32
// which is the residual decode::predict inverts (K-predict_valid_*): lossless by construction.
macro_rules! k_encode_residuals {
    ($name:ident, $n:expr, $order:expr, $unw:expr) => {
        #[kani::proof]
        #[kani::unwind($unw)]
        pub(crate) fn $name() {
            let mut x = [0i32; $n];
            let mut xs = [0i64; $n];
            let mut i = 0;
            while i < $n { x[i] = kani::any(); xs[i] = x[i] as i64; i += 1; }
            let mut c = [0i64; $order];
            let mut coefficients: ArrayVec<i32, MAX_LPC_COEFFS> = ArrayVec::new();
            let mut j = 0;
            while j < $order { let v = any_i64_within(15); c[j] = v; coefficients.push(v as i32); j += 1; }
            let shift: u32 = kani::any();
            kani::assume(shift <= 31);
            let params = LpcParameters { order: NonZero::new($order as u8).unwrap(), precision: SignedBitCount::new::<15>(), shift, coefficients };
            let mut cache: Vec<i32> = Vec::new();
            let r = LpcSubframeParameters::encode_residuals(&params, &x, &mut cache);
            let mut fits = true;
            let mut i = $order;
            while i < $n {
                let want = specenc::spec_residual(&xs, i, $order, &c, shift);
                if want < i32::MIN as i64 || want > i32::MAX as i64 { fits = false; }
                i += 1;
            }
            match r {
                Ok((warm_up, res)) => {
                    vk_assert!(warm_up.len() == $order && res.len() == $n - $order, "warm-up / residual split follows the predictor order");
                    let mut i = 0;
                    while i < $order { vk_assert!(warm_up[i] == x[i], "warm-up samples are the first `order` samples"); i += 1; }
                    let mut i = $order;
                    while i < $n {
                        vk_assert!(res[i - $order] as i64 == specenc::spec_residual(&xs, i, $order, &c, shift), "residual differs from the RFC 9639 9.2.6 residual of the sample");
                        i += 1;
                    }
                }
                Err(_) => { vk_assert!(!fits, "residuals that fit 32 bits must not be reported as overflow"); }
            }
        }
    };
}
k_encode_residuals!(k_enc_residuals_n3_o1, 3, 1, 5);
k_encode_residuals!(k_enc_residuals_n4_o2, 4, 2, 6);
k_encode_residuals!(k_enc_residuals_n4_o3, 4, 3, 6);

// ------------------------------------------------------------------ correlate_channels (fast stereo decorrelation)
//
// contract (RFC 9639 §4.2): for in-range left/right (bps bits) the returned assignment and channel slices satisfy
//   Independent: (left, right) at bps;  LeftSide: (left, l-r at bps+1);  SideRight: (l-r at bps+1, right);
//   MidSide: ((l+r)>>1 at bps, l-r at bps+1);  32-bit input => Independent;  all_0 flags truthful; never panics
macro_rules! k_correlate {
    ($name:ident, $mid_side:expr) => {
        #[kani::proof]
        #[kani::unwind(5)]
        pub(crate) fn $name() {
            let bps: u32 = kani::any();
            kani::assume(bps >= 1 && bps <= 32);
            let l = [any_i64_within(bps) as i32, any_i64_within(bps) as i32];
            let r = [any_i64_within(bps) as i32, any_i64_within(bps) as i32];
            let options = EncoderOptions { max_partition_order: 0, mid_side: $mid_side, seektable_interval: None, max_lpc_order: None,
                window: Window::Rectangle, exhaustive_channel_correlation: false, use_rice2: false };
            let mut cache = CorrelationCache::default();
            let Correlated { channel_assignment, channels: [c0, c1] } = correlate_channels(&options, &mut cache, [&l, &r], sbc::<32>(bps));
            let mut i = 0;
            while i < 2 {
                let (li, ri) = (l[i] as i64, r[i] as i64);
                let (w0, w1): (i64, i64) = match channel_assignment {
                    ChannelAssignment::Independent(_) => (li, ri),
                    ChannelAssignment::LeftSide => (li, spec::side_of(li, ri)),
                    ChannelAssignment::SideRight => (spec::side_of(li, ri), ri),
                    ChannelAssignment::MidSide => (spec::mid_of(li, ri), spec::side_of(li, ri)),
                };
                vk_assert!(c0.samples[i] as i64 == w0 && c1.samples[i] as i64 == w1, "correlated channel samples differ from the RFC 9639 4.2 definition for the chosen assignment");
                i += 1;
            }
            let (b0, b1) = match channel_assignment {
                ChannelAssignment::Independent(Independent::Stereo) => (bps, bps),
                ChannelAssignment::Independent(_) => (0, 0),
                ChannelAssignment::LeftSide | ChannelAssignment::MidSide => (bps, bps + 1),
                ChannelAssignment::SideRight => (bps + 1, bps),
            };
            vk_assert!(u32::from(c0.bits_per_sample) == b0 && u32::from(c1.bits_per_sample) == b1, "side channel one bit wider, other channels at the stream width");
            if bps == 32 { vk_assert!(matches!(channel_assignment, ChannelAssignment::Independent(Independent::Stereo)), "32-bit streams are never decorrelated"); }
            if !$mid_side { vk_assert!(!matches!(channel_assignment, ChannelAssignment::MidSide), "mid/side only when enabled"); }
            vk_assert!(!c0.all_0 || (c0.samples[0] == 0 && c0.samples[1] == 0), "all_0 only for an all-zero channel");
            vk_assert!(!c1.all_0 || (c1.samples[0] == 0 && c1.samples[1] == 0), "all_0 only for an all-zero channel");
        }
    };
}
k_correlate!(k_correlate_fast_ms, true);
k_correlate!(k_correlate_fast_noms, false);

// ------------------------------------------------------------------ write_residuals (max partition order 0)
//
// Floating point is an oracle: log2/ceil return *any* value, so the contract holds whatever the
// Rice-parameter estimate comes out as.
// contract (RFC 9639 §9.2.7): for residuals r (each a valid 32-bit residual or not) and any estimate
//   Ok(()) => the fields written are: method (2 bits: 0, or 1 only when use_rice2), partition order 0 (4 bits),
//             then ONE partition that is the RFC coding of exactly r: Rice(k < escape) with unary(zigzag>>k), k low bits;
//             or escape + 5-bit width w in 1..=31 with every r fitting w bits; or escape + width 0 with all r == 0;
//             and no residual equals i32::MIN
//   never panics
/// log2 under its interval contract, pre-rounded: returns an integer b (as f64) with
/// 2^(b-2) < x <= 2^(b+1), i.e. ceil(log2 x) give or take one — every value `x.log2().ceil()` can
/// take on any IEEE implementation, and more.  (x is a mean of magnitudes, 1 < x <= 2^32 here.)
fn stub_log2(x: f64) -> f64 {
    let b: u32 = kani::any();
    kani::assume(b <= 40);
    let hi = (1u64 << (b + 1)) as f64;
    kani::assume(x <= hi);
    if b >= 2 {
        let lo = (1u64 << (b - 2)) as f64;
        kani::assume(x > lo);
    }
    b as f64
}
fn stub_ceil(x: f64) -> f64 {
    x
}

macro_rules! k_write_residuals_po0 {
    ($name:ident, $n:expr, $order:expr, $rice2:expr, $unw:expr) => {
        #[kani::proof]
        #[kani::unwind($unw)]
        #[kani::stub(f64::log2, stub_log2)]
        #[kani::stub(f64::ceil, stub_ceil)]
        pub(crate) fn $name() {
            let mut r = [0i32; $n];
            let mut i = 0;
            while i < $n { r[i] = kani::any(); i += 1; }
            let options = EncoderOptions { max_partition_order: 0, mid_side: false, seektable_interval: None, max_lpc_order: None,
                window: Window::Rectangle, exhaustive_channel_correlation: false, use_rice2: $rice2 };
            let mut t: Tape<12> = Tape::new();
            let res = write_residuals(&options, &mut t, $order, &r);
            vk_undecided!(!t.overflow, "field tape capacity exceeded");
            if res.is_ok() {
                vk_assert!(t.len >= 3, "method, partition order and parameter are always written");
                let f = &t.f;
                vk_assert!(f[0].kind == K_U && f[0].width == 2 && f[0].val <= 1, "2-bit coding method 0 or 1");
                let method = f[0].val as u32;
                vk_assert!($rice2 || method == 0, "5-bit Rice parameters only when enabled (bits-per-sample > 16)");
                vk_assert!(f[1].kind == K_U && f[1].width == 4 && f[1].val == 0, "4-bit partition order 0");
                let pbits = if method == 0 { 4 } else { 5 };
                let esc = if method == 0 { 15 } else { 31 };
                vk_assert!(f[2].kind == K_U && f[2].width == pbits, "partition parameter width follows the coding method");
                let k = f[2].val as u32;
                let mut i = 0;
                while i < $n { vk_assert!(r[i] != i32::MIN, "a residual of -2^31 must never be written (RFC 9639 9.2.7.3)"); i += 1; }
                if k < esc {
                    vk_assert!(t.len == 3 + 2 * $n, "Rice partition: unary + low bits per residual");
                    let mut i = 0;
                    while i < $n {
                        let z = spec::zigzag(r[i] as i64);
                        vk_assert!(f[3 + 2 * i].kind == K_UN1 && f[3 + 2 * i].val == z >> k, "unary part is the folded residual shifted right by the Rice parameter");
                        vk_assert!(f[4 + 2 * i].kind == K_U && f[4 + 2 * i].width == k && f[4 + 2 * i].val == z & ((1u64 << k) - 1), "low bits of the folded residual");
                        i += 1;
                    }
                } else {
                    vk_assert!(f[3].kind == K_U && f[3].width == 5, "escape code is followed by a 5-bit width");
                    let w = f[3].val as u32;
                    if w == 0 {
                        vk_assert!(t.len == 4, "zero-width escape stores no residuals");
                        let mut i = 0;
                        while i < $n { vk_assert!(r[i] == 0, "zero-width escape only for all-zero residuals"); i += 1; }
                    } else {
                        vk_assert!(t.len == 4 + $n, "escaped partition: one raw field per residual");
                        let mut i = 0;
                        while i < $n {
                            vk_assert!(f[4 + i].kind == K_S && f[4 + i].width == w && f[4 + i].val as i64 == r[i] as i64, "escaped residual stored in two's complement at the stated width");
                            i += 1;
                        }
                    }
                }
            }
            kani::cover!(res.is_ok() && t.len == 3 + 2 * $n, "Rice coding reachable");
            kani::cover!(res.is_ok() && t.len == 4, "constant partition reachable");
        }
    };
}
k_write_residuals_po0!(k_write_res_po0_n2_o0, 2, 0, false, 4);
k_write_residuals_po0!(k_write_res_po0_n1_o1_rice2, 1, 1, true, 3);

// ------------------------------------------------------------------ encode_subframe (candidate selection, wasted bits, verbatim fallback)
//
// The candidate encoders are replaced by their contract "writes some number of bits, or fails" with the
// number and the failure symbolic, so the obligation covers every outcome of the (float-driven) analysis.
// contract: for a channel of n samples at bps bits
//   all samples zero                => CONSTANT subframe, 8 + bps bits
//   k = common trailing zero bits   => candidates see samples >> k at bps - k bits with wasted = k
//   returned recorder r             => r.written() <= 8 + k + n·(bps - k)  (the VERBATIM subframe's size): never expands;
//                                      a candidate is only chosen if strictly smaller than n·(bps - k) bits; both failing => VERBATIM
static G_FIX_BITS: AtomicUsize = AtomicUsize::new(0);
static G_FIX_FAIL: AtomicUsize = AtomicUsize::new(0);
static G_LPC_BITS: AtomicUsize = AtomicUsize::new(0);
static G_LPC_FAIL: AtomicUsize = AtomicUsize::new(0);
static G_SEEN_BPS: AtomicUsize = AtomicUsize::new(0);
static G_SEEN_WASTED: AtomicUsize = AtomicUsize::new(usize::MAX);
static G_SEEN_S0: AtomicI64 = AtomicI64::new(0);
static G_SEEN_SL: AtomicI64 = AtomicI64::new(0);
static G_SEEN_N: AtomicUsize = AtomicUsize::new(0);

fn record_candidate_args(channel: &[i32], bps: SignedBitCount<32>, wasted: u32) {
    G_SEEN_BPS.store(u32::from(bps) as usize, Relaxed);
    G_SEEN_WASTED.store(wasted as usize, Relaxed);
    G_SEEN_N.store(channel.len(), Relaxed);
    G_SEEN_S0.store(channel[0] as i64, Relaxed);
    G_SEEN_SL.store(channel[channel.len() - 1] as i64, Relaxed);
}

/// candidate sizes come from a boundary set around the two comparisons encode_subframe makes
/// (candidate vs candidate, best vs n·bps): concrete sizes keep the bit recorder's Vec concrete
const SIZES: [u32; 6] = [9, 10, 47, 48, 49, 120];
fn pad_choice<W: BitWrite>(writer: &mut W, which: usize) -> Result<(), Error> {
    match which {
        0 => writer.pad(SIZES[0])?,
        1 => writer.pad(SIZES[1])?,
        2 => writer.pad(SIZES[2])?,
        3 => writer.pad(SIZES[3])?,
        4 => writer.pad(SIZES[4])?,
        _ => writer.pad(SIZES[5])?,
    }
    Ok(())
}

fn stub_encode_fixed<W: BitWrite>(_o: &EncoderOptions, _c: &mut FixedCache, writer: &mut W, channel: &[i32],
                                  bps: SignedBitCount<32>, wasted: u32) -> Result<(), Error> {
    record_candidate_args(channel, bps, wasted);
    if G_FIX_FAIL.load(Relaxed) != 0 { return Err(Error::ResidualOverflow); }
    pad_choice(writer, G_FIX_BITS.load(Relaxed))
}

fn stub_encode_lpc<W: BitWrite>(_o: &EncoderOptions, _m: NonZero<u8>, _c: &mut LpcCache, writer: &mut W, channel: &[i32],
                                bps: SignedBitCount<32>, wasted: u32) -> Result<(), Error> {
    record_candidate_args(channel, bps, wasted);
    if G_LPC_FAIL.load(Relaxed) != 0 { return Err(Error::NoBestLpcOrder); }
    pad_choice(writer, G_LPC_BITS.load(Relaxed))
}

macro_rules! k_encode_subframe_select {
    ($name:ident, [$($s:expr),*], $bps:expr, $lpc:expr, $k:expr, $unw:expr) => {
        #[kani::proof]
        #[kani::unwind($unw)]
        #[kani::stub(encode_fixed_subframe, stub_encode_fixed)]
        #[kani::stub(encode_lpc_subframe, stub_encode_lpc)]
        pub(crate) fn $name() {
            let samples: &[i32] = &[$($s),*];
            let n = samples.len() as u32;
            let fb: usize = kani::any(); let lb: usize = kani::any();
            kani::assume(fb <= 5 && lb <= 5);
            let ff: bool = kani::any(); let lf: bool = kani::any();
            G_FIX_BITS.store(fb, Relaxed); G_LPC_BITS.store(lb, Relaxed);
            G_FIX_FAIL.store(ff as usize, Relaxed); G_LPC_FAIL.store(lf as usize, Relaxed);
            let options = EncoderOptions { max_partition_order: 0, mid_side: false, seektable_interval: None,
                max_lpc_order: if $lpc { NonZero::new(8) } else { None }, window: Window::Rectangle,
                exhaustive_channel_correlation: false, use_rice2: false };
            let mut cache = ChannelCache::default();
            let all_zero = samples.iter().all(|s| *s == 0);
            let res = encode_subframe(&options, &mut cache, CorrelatedChannel { samples, bits_per_sample: sbc::<32>($bps), all_0: kani::any::<bool>() && all_zero });
            let r = match res { Ok(r) => r, Err(_) => { vk_assert!(false, "encode_subframe failed although the verbatim fallback always applies"); return; } };
            let written = r.written();
            if all_zero {
                vk_assert!(written == 8 + $bps, "an all-zero channel is a CONSTANT subframe of 8 + bps bits");
            } else {
                let k: u32 = $k; // common trailing zeros of the concrete samples
                let verbatim = 8 + k + n * ($bps - k);
                vk_assert!(written <= verbatim, "subframe larger than the samples stored verbatim");
                vk_assert!(G_SEEN_WASTED.load(Relaxed) == k as usize && G_SEEN_BPS.load(Relaxed) == ($bps - k) as usize, "candidates get the wasted-bit count and the reduced sample width");
                vk_assert!(G_SEEN_N.load(Relaxed) == n as usize && G_SEEN_S0.load(Relaxed) == (samples[0] >> k) as i64
                    && G_SEEN_SL.load(Relaxed) == (samples[samples.len() - 1] >> k) as i64, "candidates get the samples shifted right by the wasted bits");
                let fix_ok = !ff; let lpc_ok = $lpc && !lf;
                if !fix_ok && !lpc_ok { vk_assert!(written == verbatim, "no candidate => VERBATIM subframe"); }
                if written != verbatim { vk_assert!(written < n * ($bps - k), "a candidate is only chosen when strictly smaller than the raw samples"); }
            }
            kani::cover!(all_zero || written < n * $bps, "a candidate (or the constant subframe) is chosen for some sizes");
        }
    };
}
k_encode_subframe_select!(k_enc_select_odd_lpc, [5, -7, 9], 16, true, 0, 6);
k_encode_subframe_select!(k_enc_select_odd_nolpc, [5, -7, 9], 16, false, 0, 6);
// measured: an instance with common trailing zero bits ([4, -8, 12]) runs CBMC out of memory in
// `wasted.extend(channel.iter().map(..))`; the encoder-side wasted-bits shift is therefore not decided
k_encode_subframe_select!(k_enc_select_zero, [0, 0, 0], 24, true, 0, 6);
k_encode_subframe_select!(k_enc_select_odd_12bit, [5, -7, 9], 12, true, 0, 6);



// ------------------------------------------------------------------ encode_fixed_subframe / encode_lpc_subframe (modular)
//
// write_residuals is replaced by its contract (K-write_res_po0_*): it is handed a predictor order and the
// residual slice and writes their coding; here it records both so the caller's obligations can be stated:
// contract encode_fixed_subframe: writes header FIXED(k) with the wasted-bits field, the first k samples at bps
//   bits, then calls write_residuals(k, r) with r[i] == the k-th order difference of x  (== RFC residual for
//   the fixed predictor of order k), k <= 4 and k < n;  never panics (differences that overflow i32 stop the search)
static G_WR_ORDER: AtomicUsize = AtomicUsize::new(usize::MAX);
static G_WR_LEN: AtomicUsize = AtomicUsize::new(usize::MAX);
static G_WR_CALLS: AtomicUsize = AtomicUsize::new(0);
static G_WR_RES: [AtomicI64; 8] = [const { AtomicI64::new(0) }; 8];
fn stub_write_residuals<W: BitWrite>(_o: &EncoderOptions, _w: &mut W, predictor_order: usize, residuals: &[i32]) -> Result<(), Error> {
    G_WR_ORDER.store(predictor_order, Relaxed);
    G_WR_LEN.store(residuals.len(), Relaxed);
    G_WR_CALLS.fetch_add(1, Relaxed);
    let mut i = 0;
    while i < residuals.len() && i < 8 { G_WR_RES[i].store(residuals[i] as i64, Relaxed); i += 1; }
    Ok(())
}

fn check_header_fields<const N: usize>(t: &Tape<N>, type_code: u64, wasted: u32) -> usize {
    vk_assert!(t.f[0].kind == K_U && t.f[0].width == 1 && t.f[0].val == 0, "subframe starts with a zero padding bit");
    vk_assert!(t.f[1].kind == K_U && t.f[1].width == 6 && t.f[1].val == type_code, "6-bit subframe type code");
    vk_assert!(t.f[2].kind == K_U && t.f[2].width == 1 && t.f[2].val == (wasted > 0) as u64, "wasted-bits flag");
    if wasted > 0 {
        vk_assert!(t.f[3].kind == K_UN1 && t.f[3].val == (wasted - 1) as u64, "wasted bits coded as unary(k - 1)");
        4
    } else {
        3
    }
}

macro_rules! k_encode_fixed {
    ($name:ident, $n:expr, $unw:expr) => {
        #[kani::proof]
        #[kani::unwind($unw)]
        #[kani::stub(write_residuals, stub_write_residuals)]
        pub(crate) fn $name() {
            let bps: u32 = kani::any();
            kani::assume(bps >= 1 && bps <= 32);
            let wasted: u32 = kani::any();
            kani::assume(wasted <= 3);
            let mut x = [0i32; $n];
            let mut xs = [0i64; $n];
            let mut i = 0;
            while i < $n { xs[i] = any_i64_within(bps); x[i] = xs[i] as i32; i += 1; }
            let options = EncoderOptions { max_partition_order: 0, mid_side: false, seektable_interval: None, max_lpc_order: None,
                window: Window::Rectangle, exhaustive_channel_correlation: false, use_rice2: false };
            let mut cache = FixedCache::default();
            let mut t: Tape<12> = Tape::new();
            let res = encode_fixed_subframe(&options, &mut cache, &mut t, &x, sbc::<32>(bps), wasted);
            vk_assert!(res.is_ok(), "encode_fixed_subframe fails only if writing fails");
            vk_assert!(G_WR_CALLS.load(Relaxed) == 1, "residuals written exactly once");
            let k = G_WR_ORDER.load(Relaxed);
            vk_assert!(k <= 4 && k < $n, "fixed predictor order at most 4 and below the block size");
            let at = check_header_fields(&t, specenc::t_fixed(k as u32), wasted);
            vk_assert!(t.len == at + k, "header, then exactly `order` warm-up samples, then the residual coding");
            let mut i = 0;
            while i < 4 {
                if i < k { vk_assert!(t.f[at + i].kind == K_S && t.f[at + i].width == bps && t.f[at + i].val as i64 == xs[i], "warm-up sample i is sample i at the subframe's width"); }
                i += 1;
            }
            vk_assert!(G_WR_LEN.load(Relaxed) == $n - k, "one residual per predicted sample");
            // C19, constant-block clause: a block of equal samples is predicted exactly by FIXED order >= 1, so every residual
            // handed to the residual coder is zero (which the coder stores as one zero-width escape partition)
            let mut constant = $n >= 2;
            let mut i = 1;
            while i < $n { constant = constant && xs[i] == xs[0]; i += 1; }
            if constant {
                let mut i = 0;
                while i < $n - k { vk_assert!(G_WR_RES[i].load(Relaxed) == 0, "a constant block must reach the residual coder as all-zero residuals (FIXED order >= 1 predicts it exactly)"); i += 1; }
            }
            let c = specenc::fixed_coeffs(k);
            let mut i = k;
            while i < $n {
                vk_assert!(G_WR_RES[i - k].load(Relaxed) == specenc::spec_residual(&xs, i, k, &c, 0), "residual differs from the RFC 9639 9.2.5 fixed-predictor residual");
                i += 1;
            }
        }
    };
}
k_encode_fixed!(k_enc_fixed_n3, 3, 6);
k_encode_fixed!(k_enc_fixed_n4, 4, 7);
k_encode_fixed!(k_enc_fixed_n1, 1, 6);


// encode_lpc_subframe: an obligation with LpcParameters::best replaced by "any quantised parameters" was built and
// REMOVED: Kani's memory model breaks on the Vec inside LpcCache (reported "pointer invalid" inside Vec::push
// together with a spurious contract failure on the unchanged tree).  The LPC field sequence is therefore not
// decided on the encoder side; the exact residuals are (K-enc_residuals_*), and the decoder side reads the
// RFC layout (K-sub_valid_lpc1, K-sub_mod_lpc*).

// ------------------------------------------------------------------ Encoder::encode bookkeeping (C09 / C14 / C15)
//
// contract (encode_frame replaced by "writes some bytes or fails"): one call
//   pushes exactly one seek point (samples written before, bytes written before, this frame's length),
//   adds the frame's length to samples_written, fails with ExcessiveTotalSamples as soon as a declared total would be exceeded,
//   never seeks and never touches bytes already written
static G_EF_BYTES: AtomicUsize = AtomicUsize::new(0);
static G_EF_FAIL: AtomicUsize = AtomicUsize::new(0);
static G_EF_CALLS: AtomicUsize = AtomicUsize::new(0);
fn stub_encode_frame<W: std::io::Write>(_o: &EncoderOptions, _c: &mut EncodingCaches, _writer: W, _s: &mut Streaminfo,
    _f: &mut FrameNumber, _r: SampleRate<u32>, frame: ArrayVec<&[i32], MAX_CHANNELS>) -> Result<(), Error> {
    G_EF_CALLS.fetch_add(1, Relaxed);
    std::mem::forget(frame);
    if G_EF_FAIL.load(Relaxed) != 0 { return Err(Error::ExcessiveFrameNumber); }
    Ok(())
}

pub(crate) struct LogSink { pub written: u64, pub seeks: u32 }
impl std::io::Write for LogSink {
    fn write(&mut self, buf: &[u8]) -> std::io::Result<usize> { self.written += buf.len() as u64; Ok(buf.len()) }
    fn flush(&mut self) -> std::io::Result<()> { Ok(()) }
}
impl std::io::Seek for LogSink {
    fn seek(&mut self, _pos: std::io::SeekFrom) -> std::io::Result<u64> { self.seeks += 1; Ok(0) }
}

fn mk_encoder(total: Option<NonZero<u64>>, samples_written: u64, count: u64) -> Encoder<LogSink> {
    let si = Streaminfo { minimum_block_size: 16, maximum_block_size: 16, minimum_frame_size: None, maximum_frame_size: None,
        sample_rate: 44100, channels: NonZero::new(1).unwrap(), bits_per_sample: sbc::<32>(16), total_samples: total, md5: None };
    let mut writer = Counter::new(LogSink { written: 0, seeks: 0 });
    writer.count = count;
    Encoder { writer, start: 0, options: EncoderOptions { max_partition_order: 0, mid_side: false, seektable_interval: None, max_lpc_order: None,
        window: Window::Rectangle, exhaustive_channel_correlation: false, use_rice2: false }, caches: EncodingCaches::default(),
        blocks: BlockList::new(si), sample_rate: SampleRate::Hz44100, frame_number: FrameNumber(0), samples_written, seekpoints: Vec::new(),
        md5: md5::Context::new(), finalized: true /* keeps Drop from finalizing */ }
}

macro_rules! k_encoder_encode_bookkeeping {
    ($name:ident, $declared:expr) => {
        #[kani::proof]
        #[kani::unwind(6)]
        #[kani::stub(encode_frame, stub_encode_frame)]
        pub(crate) fn $name() {
            G_EF_FAIL.store(0, Relaxed);
            let total: u64 = kani::any();
            kani::assume(total >= 1 && total < (1 << 36));
            let before: u64 = kani::any();
            let count: u64 = kani::any();
            kani::assume(before < (1 << 40) && count < (1 << 50));
            let mut e = mk_encoder(if $declared { NonZero::new(total) } else { None }, before, count);
            let mut frame = Frame::empty(1, 16);
            frame.resize(16, 1, 3);
            let res = e.encode(&frame);
            let ok = res.is_ok();
            let excessive = matches!(res, Err(Error::ExcessiveTotalSamples));
            std::mem::forget(res);
            let over = $declared && before + 3 > total;
            if over {
                vk_assert!(excessive, "writing past the declared total must fail");
                vk_assert!(G_EF_CALLS.load(Relaxed) == 0, "nothing is written for a frame that exceeds the declared total");
            } else {
                vk_assert!(ok && G_EF_CALLS.load(Relaxed) == 1, "the frame is handed to the frame writer exactly once");
                vk_assert!(e.seekpoints.len() == 1, "exactly one seek point per frame");
                vk_assert!(e.seekpoints[0].sample_offset == before, "seek point names the first sample of the frame");
                vk_assert!(e.seekpoints[0].byte_offset == Some(count), "seek point names the byte offset of the frame from the first frame");
                vk_assert!(e.seekpoints[0].frame_samples == 3, "seek point names the length of the frame");
                vk_assert!(e.samples_written == before + 3, "sample counter advances by the block size");
            }
            vk_assert!(e.writer.stream.seeks == 0, "encoding never seeks: frames are append-only");
        }
    };
}
k_encoder_encode_bookkeeping!(k_encoder_encode_declared, true);
k_encoder_encode_bookkeeping!(k_encoder_encode_undeclared, false);

// ------------------------------------------------------------------ Options (C15): every documented value accepted, every other rejected, no panic
#[kani::proof]
#[kani::unwind(4)]
pub(crate) fn k_options_setters() {
    let bs: u16 = kani::any();
    match Options::fast().no_padding().no_seektable().block_size(bs) {
        Ok(o) => vk_assert!(bs >= 16 && o.block_size == bs, "block sizes below 16 are refused, others stored"),
        Err(_) => vk_assert!(bs < 16, "a block size of 16 or more must be accepted"),
    }
    let lpc: Option<u8> = kani::any();
    match Options::fast().no_padding().no_seektable().max_lpc_order(lpc) {
        Ok(o) => vk_assert!(lpc.map_or(o.max_lpc_order.is_none(), |v| v >= 1 && v <= 32 && o.max_lpc_order.map(|x| x.get()) == Some(v)), "LPC order None or 1..=32 stored as given"),
        Err(_) => vk_assert!(matches!(lpc, Some(v) if v == 0 || v > 32), "LPC orders 1..=32 and None must be accepted"),
    }
    let po: u32 = kani::any();
    match Options::fast().no_padding().no_seektable().max_partition_order(po) {
        Ok(o) => vk_assert!(po <= 15 && o.max_partition_order == po, "partition orders 0..=15 stored as given"),
        Err(_) => vk_assert!(po > 15, "a partition order of at most 15 must be accepted"),
    }
}

// ------------------------------------------------------------------ seek point bookkeeping (C09)
// contract: placeholders(total, block) are the block starts 0, b, 2b, ... < total, each with length min(b, total - start)
#[kani::proof]
#[kani::unwind(6)]
pub(crate) fn k_seek_placeholders() {
    let block: u16 = kani::any();
    kani::assume(block >= 16);
    let total: u64 = kani::any();
    kani::assume(total >= 1 && total <= 4 * block as u64);
    let mut n = 0u64;
    for p in EncoderSeekPoint::placeholders(total, block) {
        vk_assert!(p.sample_offset == n * block as u64 && p.byte_offset.is_none(), "placeholder k starts at k x block size");
        vk_assert!(p.frame_samples as u64 == (total - p.sample_offset).min(block as u64), "each placeholder covers one block, the last one the remainder");
        vk_assert!(p.range().start == p.sample_offset && p.range().end == p.sample_offset + p.frame_samples as u64, "range is [start, start + length)");
        n += 1;
    }
    vk_assert!(n == total.div_ceil(block as u64), "one placeholder per block of the stream");
}

// contract: Frames(n) keeps every n-th point starting with the first; Seconds(s) keeps a point iff its frame
// contains the next multiple of s x rate; the result is a subsequence (ascending, no duplicates)
#[kani::proof]
#[kani::unwind(6)]
pub(crate) fn k_seek_filter() {
    let blk: u16 = kani::any();
    kani::assume(blk >= 1);
    let mut pts: Vec<EncoderSeekPoint> = Vec::new();
    let mut i = 0u64;
    while i < 4 {
        pts.push(EncoderSeekPoint { sample_offset: i * blk as u64, byte_offset: Some(i * 100), frame_samples: blk });
        i += 1;
    }
    let every: usize = kani::any();
    kani::assume(every >= 1 && every <= 5);
    let mut k = 0usize;
    for p in SeekTableInterval::Frames(NonZero::new(every).unwrap()).filter(44100, pts.iter().cloned()) {
        vk_assert!(p.sample_offset == (k * every) as u64 * blk as u64, "Frames(n): points 0, n, 2n, ... of the stream");
        k += 1;
    }
    vk_assert!(k == 4usize.div_ceil(every), "Frames(n): every n-th point and no other");
    let secs: u8 = kani::any();
    kani::assume(secs >= 1);
    let rate: u32 = kani::any();
    kani::assume(rate >= 1 && rate < (1 << 20));
    let step = secs as u64 * rate as u64;
    let mut want_next = 0u64;
    let mut last: Option<u64> = None;
    for p in SeekTableInterval::Seconds(NonZero::new(secs).unwrap()).filter(rate, pts.iter().cloned()) {
        vk_assert!(p.range().contains(&want_next), "Seconds(s): a kept point's frame contains the next multiple of s x rate");
        vk_assert!(last.map_or(true, |l| p.sample_offset > l), "kept points are strictly ascending");
        last = Some(p.sample_offset);
        want_next += step;
    }
    vk_assert!(last.is_some(), "the first frame (sample 0) is always kept");
}

// write_residuals with a partition search (max partition order >= 1) is out of Kani's reach: the candidate
// iterator chain in best_partitions runs CBMC out of memory even for a 4-sample block with concrete residuals
// (measured twice).  Its layout rule is covered by the Verus obligation V-part-encoder-filter (lemma + text
// anchor) and by the native witness /verif/native/c01_short_block_order2.rs.

// Encoder::new: an obligation with metadata::write_blocks replaced by a stub was built and removed — it did not
// finish (> 7 min, then out of memory: BlockList sorting and the boxed seek-point iterator chain).

// ------------------------------------------------------------------ FlacSampleWriter: carry-over buffer and whole-block draining (C08)
//
// The collaborators are replaced by recorders (their own contracts: Frame::fill_from_samples de-interleaves the
// slice it is given — out of CBMC's reach through MultiZip; update_md5 hashes the samples it is given;
// Encoder::encode is K-encoder_encode_*).  What is proved is the buffering itself:
// contract write(samples), with k samples carried over from earlier calls (k < F = channels x block size):
//   the blocks handed to the frame builder and to the MD5 are exactly the first floor((k+m)/F) x F samples of
//   (carry ++ samples), in order, F at a time; the rest stays buffered in order.
// By induction over calls (lemma L-CHUNK) the block sequence is a function of the concatenation only.
// contract finalize_inner(): the trailing partial PCM frame is dropped, the rest is encoded as one last block,
//   and an empty block is never handed on (fewer than one whole PCM frame buffered => nothing is encoded).
static G_W_LOG: [AtomicI64; 12] = [const { AtomicI64::new(0) }; 12];
static G_W_LOG_N: AtomicUsize = AtomicUsize::new(0);
static G_W_BLOCKS: AtomicUsize = AtomicUsize::new(0);
static G_W_EMPTY: AtomicUsize = AtomicUsize::new(0);
static G_W_MD5_N: AtomicUsize = AtomicUsize::new(0);
static G_W_MD5_SUM: AtomicI64 = AtomicI64::new(0);
static G_W_ENCODES: AtomicUsize = AtomicUsize::new(0);
static G_W_FINALIZED: AtomicUsize = AtomicUsize::new(0);

fn stub_fill_from_samples<'f>(f: &'f mut Frame, samples: &[i32]) -> &'f Frame {
    if samples.is_empty() { G_W_EMPTY.fetch_add(1, Relaxed); }
    let mut n = G_W_LOG_N.load(Relaxed);
    let mut i = 0;
    while i < samples.len() {
        if n < 12 { G_W_LOG[n].store(samples[i] as i64, Relaxed); }
        n += 1;
        i += 1;
    }
    G_W_LOG_N.store(n, Relaxed);
    G_W_BLOCKS.fetch_add(1, Relaxed);
    f
}
fn stub_update_md5(_md5: &mut md5::Context, samples: impl Iterator<Item = i32>, _bytes_per_sample: usize) {
    for s in samples {
        G_W_MD5_N.fetch_add(1, Relaxed);
        // order-sensitive running digest of what was hashed
        let prev = G_W_MD5_SUM.load(Relaxed);
        G_W_MD5_SUM.store(prev.wrapping_mul(31).wrapping_add(s as i64), Relaxed);
    }
}
fn stub_encoder_encode<W: std::io::Write + std::io::Seek>(_e: &mut Encoder<W>, _frame: &Frame) -> Result<(), Error> {
    G_W_ENCODES.fetch_add(1, Relaxed);
    Ok(())
}
fn stub_encoder_finalize<W: std::io::Write + std::io::Seek>(_e: &mut Encoder<W>) -> Result<(), Error> {
    G_W_FINALIZED.fetch_add(1, Relaxed);
    Ok(())
}

fn mk_sample_writer(channels: usize, block: usize, carry: &[i32]) -> FlacSampleWriter<LogSink> {
    let mut sample_buf: VecDeque<i32> = VecDeque::new();
    let mut i = 0;
    while i < carry.len() { sample_buf.push_back(carry[i]); i += 1; }
    FlacSampleWriter {
        encoder: mk_encoder(None, 0, 0),
        sample_buf,
        frame: Frame::empty(channels, 16),
        frame_sample_size: channels * block,
        pcm_frame_size: channels,
        bytes_per_sample: 2,
        finalized: false,
    }
}

macro_rules! k_sample_writer_write {
    ($name:ident, $channels:expr, $block:expr, $k:expr, $m:expr, $unw:expr) => {
        #[kani::proof]
        #[kani::unwind($unw)]
        #[kani::stub(crate::audio::Frame::fill_from_samples, stub_fill_from_samples)]
        #[kani::stub(update_md5, stub_update_md5)]
        #[kani::stub(Encoder::encode, stub_encoder_encode)]
        pub(crate) fn $name() {
            const F: usize = $channels * $block;
            let carry: [i32; $k] = kani::any();
            let input: [i32; $m] = kani::any();
            let mut w = mk_sample_writer($channels, $block, &carry);
            let res = w.write(&input);
            vk_assert!(res.is_ok(), "write succeeds when the encoder does");
            let all = |i: usize| -> i32 { if i < $k { carry[i] } else { input[i - $k] } };
            let blocks = ($k + $m) / F;
            vk_assert!(G_W_BLOCKS.load(Relaxed) == blocks && G_W_ENCODES.load(Relaxed) == blocks, "one frame per whole block of buffered samples");
            vk_assert!(G_W_LOG_N.load(Relaxed) == blocks * F && G_W_MD5_N.load(Relaxed) == blocks * F, "frames and MD5 receive exactly the whole blocks");
            let mut want_sum: i64 = 0;
            let mut i = 0;
            while i < blocks * F {
                vk_assert!(G_W_LOG[i].load(Relaxed) == all(i) as i64, "blocks are consecutive slices of (carried-over ++ written) samples, in order");
                want_sum = want_sum.wrapping_mul(31).wrapping_add(all(i) as i64);
                i += 1;
            }
            vk_assert!(G_W_MD5_SUM.load(Relaxed) == want_sum, "the MD5 is fed the same samples in the same order");
            vk_assert!(w.sample_buf.len() == ($k + $m) - blocks * F, "the remainder stays buffered");
            let mut j = 0;
            while j < w.sample_buf.len() {
                vk_assert!(w.sample_buf[j] == all(blocks * F + j), "carried-over samples keep their order");
                j += 1;
            }
            w.encoder.finalized = true;
        }
    };
}
k_sample_writer_write!(k_sample_writer_write_1ch_k0_m3, 1, 2, 0, 3, 8);
k_sample_writer_write!(k_sample_writer_write_1ch_k1_m4, 1, 2, 1, 4, 8);
k_sample_writer_write!(k_sample_writer_write_2ch_k3_m2, 2, 2, 3, 2, 8);
k_sample_writer_write!(k_sample_writer_write_2ch_k1_m1, 2, 2, 1, 1, 8);

macro_rules! k_sample_writer_finalize {
    ($name:ident, $channels:expr, $block:expr, $k:expr, $unw:expr) => {
        #[kani::proof]
        #[kani::unwind($unw)]
        #[kani::stub(crate::audio::Frame::fill_from_samples, stub_fill_from_samples)]
        #[kani::stub(update_md5, stub_update_md5)]
        #[kani::stub(Encoder::encode, stub_encoder_encode)]
        #[kani::stub(Encoder::finalize_inner, stub_encoder_finalize)]
        pub(crate) fn $name() {
            let carry: [i32; $k] = kani::any();
            let mut w = mk_sample_writer($channels, $block, &carry);
            let res = w.finalize_inner();
            vk_assert!(res.is_ok(), "finalize succeeds when the encoder does");
            let whole = ($k / $channels) * $channels;
            vk_assert!(G_W_EMPTY.load(Relaxed) == 0, "an empty block must never be handed to the frame builder (it cannot be encoded)");
            vk_assert!(G_W_LOG_N.load(Relaxed) == whole && G_W_MD5_N.load(Relaxed) == whole, "the trailing partial PCM frame is dropped, everything before it is encoded and hashed");
            vk_assert!(G_W_BLOCKS.load(Relaxed) == (whole > 0) as usize, "at most one final block");
            let mut i = 0;
            while i < whole { vk_assert!(G_W_LOG[i].load(Relaxed) == carry[i] as i64, "the final block is the buffered samples in order"); i += 1; }
            vk_assert!(G_W_FINALIZED.load(Relaxed) == 1, "the stream is finalized exactly once");
            let again = w.finalize_inner();
            vk_assert!(again.is_ok() && G_W_FINALIZED.load(Relaxed) == 1, "finalizing twice is a no-op");
            w.encoder.finalized = true;
        }
    };
}
k_sample_writer_finalize!(k_sample_writer_finalize_2ch_k3, 2, 4, 3, 8);
k_sample_writer_finalize!(k_sample_writer_finalize_2ch_k1, 2, 4, 1, 8);
k_sample_writer_finalize!(k_sample_writer_finalize_1ch_k0, 1, 4, 0, 8);

// ------------------------------------------------------------------ FlacByteWriter: carry-over buffer, byte order, whole-block draining (C08)
// contract write(bytes) with k bytes carried over (k < frame_byte_size): the blocks handed on are exactly the first
// floor((k+m)/B) x B bytes of (carry ++ bytes), converted sample-wise to little-endian, in order; the MD5 sees the
// same little-endian bytes; the remainder stays buffered unconverted (so a write that ends in the middle of a
// sample is converted only once the sample is complete).
static G_B_LOG: [AtomicUsize; 12] = [const { AtomicUsize::new(0) }; 12];
static G_B_LOG_N: AtomicUsize = AtomicUsize::new(0);
static G_B_BLOCKS: AtomicUsize = AtomicUsize::new(0);
static G_B_EMPTY: AtomicUsize = AtomicUsize::new(0);
fn stub_fill_from_buf<'f, E: crate::byteorder::Endianness>(f: &'f mut Frame, buf: &[u8]) -> &'f Frame {
    if buf.is_empty() { G_B_EMPTY.fetch_add(1, Relaxed); }
    let mut n = G_B_LOG_N.load(Relaxed);
    let mut i = 0;
    while i < buf.len() {
        if n < 12 { G_B_LOG[n].store(buf[i] as usize, Relaxed); }
        n += 1;
        i += 1;
    }
    G_B_LOG_N.store(n, Relaxed);
    G_B_BLOCKS.fetch_add(1, Relaxed);
    f
}

fn mk_byte_writer<E: crate::byteorder::Endianness>(channels: usize, block: usize, carry: &[u8]) -> FlacByteWriter<LogSink, E> {
    let mut buf: VecDeque<u8> = VecDeque::new();
    let mut i = 0;
    while i < carry.len() { buf.push_back(carry[i]); i += 1; }
    FlacByteWriter {
        encoder: mk_encoder(None, 0, 0),
        buf,
        frame: Frame::empty(channels, 16),
        bytes_per_sample: 2,
        pcm_frame_size: 2 * channels,
        frame_byte_size: 2 * channels * block,
        finalized: true, // keeps Drop from finalizing; write() does not look at it
        endianness: std::marker::PhantomData,
    }
}

macro_rules! k_byte_writer_write {
    ($name:ident, $e:ty, $swap:expr, $k:expr, $m:expr, $unw:expr) => {
        #[kani::proof]
        #[kani::unwind($unw)]
        #[kani::stub(crate::audio::Frame::fill_from_buf, stub_fill_from_buf)]
        #[kani::stub(Encoder::encode, stub_encoder_encode)]
        pub(crate) fn $name() {
            use std::io::Write;
            const B: usize = 4; // mono, 16-bit, block of 2 samples
            let carry: [u8; $k] = kani::any();
            let input: [u8; $m] = kani::any();
            let mut w: FlacByteWriter<LogSink, $e> = mk_byte_writer::<$e>(1, 2, &carry);
            let res = w.write(&input);
            vk_assert!(matches!(res, Ok(n) if n == $m), "write consumes all the bytes it is given");
            let all = |i: usize| -> u8 { if i < $k { carry[i] } else { input[i - $k] } };
            let blocks = ($k + $m) / B;
            vk_assert!(G_B_BLOCKS.load(Relaxed) == blocks && G_W_ENCODES.load(Relaxed) == blocks, "one frame per whole block of buffered bytes");
            vk_assert!(G_B_LOG_N.load(Relaxed) == blocks * B, "frames receive exactly the whole blocks");
            let mut i = 0;
            while i < blocks * B {
                // little-endian image of sample i/2: bytes swapped within each 2-byte sample for big-endian input
                let src = if $swap { (i / 2) * 2 + (1 - i % 2) } else { i };
                vk_assert!(G_B_LOG[i].load(Relaxed) == all(src) as usize, "blocks are consecutive samples of (carried-over ++ written) bytes, each converted to little-endian exactly once");
                i += 1;
            }
            vk_assert!(w.buf.len() == ($k + $m) - blocks * B, "the remainder stays buffered");
            let mut j = 0;
            while j < w.buf.len() {
                vk_assert!(w.buf[j] == all(blocks * B + j), "carried-over bytes stay in input order and input byte order");
                j += 1;
            }
            w.encoder.finalized = true;
        }
    };
}
k_byte_writer_write!(k_byte_writer_write_le_k1_m4, crate::byteorder::LittleEndian, false, 1, 4, 8);
k_byte_writer_write!(k_byte_writer_write_be_k1_m4, crate::byteorder::BigEndian, true, 1, 4, 8);
k_byte_writer_write!(k_byte_writer_write_be_k3_m6, crate::byteorder::BigEndian, true, 3, 6, 12);
k_byte_writer_write!(k_byte_writer_write_be_k0_m3, crate::byteorder::BigEndian, true, 0, 3, 8);

// ------------------------------------------------------------------ update_md5: the hash input is the little-endian byte image of the samples (C08 / C09)
// contract (md5::Context::consume replaced by a recorder): for each sample, in order, exactly `bytes_per_sample`
// bytes are hashed and they are the low bytes of the sample's two's complement, least significant first
static G_H_LOG: [AtomicUsize; 8] = [const { AtomicUsize::new(0) }; 8];
static G_H_N: AtomicUsize = AtomicUsize::new(0);
fn stub_md5_consume<T: AsRef<[u8]>>(_c: &mut md5::Context, data: T) {
    let d = data.as_ref();
    let mut n = G_H_N.load(Relaxed);
    let mut i = 0;
    while i < d.len() {
        if n < 8 { G_H_LOG[n].store(d[i] as usize, Relaxed); }
        n += 1;
        i += 1;
    }
    G_H_N.store(n, Relaxed);
}
macro_rules! k_update_md5_bytes {
    ($name:ident, $w:expr) => {
        #[kani::proof]
        #[kani::unwind(6)]
        #[kani::stub(md5::Context::consume, stub_md5_consume)]
        pub(crate) fn $name() {
            let s: [i32; 2] = [any_i64_within(8 * $w) as i32, any_i64_within(8 * $w) as i32];
            let mut c = md5::Context::new();
            update_md5(&mut c, s.iter().copied(), $w);
            vk_assert!(G_H_N.load(Relaxed) == 2 * $w, "exactly bytes_per_sample bytes are hashed per sample");
            let mut k = 0;
            while k < 2 {
                let mut b = 0;
                while b < $w {
                    vk_assert!(G_H_LOG[k * $w + b].load(Relaxed) == ((s[k] >> (8 * b)) & 0xFF) as usize, "hash input is the little-endian two's-complement image of each sample, in order");
                    b += 1;
                }
                k += 1;
            }
        }
    };
}
k_update_md5_bytes!(k_update_md5_bytes_w1, 1);
k_update_md5_bytes!(k_update_md5_bytes_w2, 2);
k_update_md5_bytes!(k_update_md5_bytes_w3, 3);
k_update_md5_bytes!(k_update_md5_bytes_w4, 4);

// ------------------------------------------------------------------ Encoder::finalize_inner without a seek table (C09 / C15 / C14)
// contract (metadata writer and MD5 finalisation replaced by recorders; seek-table policy off, so the three table
// layouts are NOT covered here):
//   declared total: Ok iff samples written == declared, else SampleCountMismatch
//   undeclared:     0 written => NoSamples; >= 2^36 => ExcessiveTotalSamples; else the count is recorded
//   on Ok: MD5 stored, the stream is repositioned exactly once, to the remembered start of the stream (never into
//          the audio frames), and the metadata blocks are rewritten exactly once after that
//   on Err: nothing is repositioned or rewritten;  a second call is a no-op
static G_F_WRITES: AtomicUsize = AtomicUsize::new(0);
static G_F_WRITE_AFTER_SEEK: AtomicUsize = AtomicUsize::new(0);
fn stub_write_blocks_rec<B: crate::metadata::AsBlockRef>(_w: impl std::io::Write, _blocks: impl IntoIterator<Item = B>) -> Result<(), Error> {
    G_F_WRITES.fetch_add(1, Relaxed);
    G_F_WRITE_AFTER_SEEK.store(G_F_SEEKS.load(Relaxed), Relaxed);
    Ok(())
}
static G_F_SEEKS: AtomicUsize = AtomicUsize::new(0);
static G_F_SEEK_TO: AtomicUsize = AtomicUsize::new(usize::MAX);
pub(crate) struct SeekLog;
impl std::io::Write for SeekLog {
    fn write(&mut self, buf: &[u8]) -> std::io::Result<usize> { Ok(buf.len()) }
    fn flush(&mut self) -> std::io::Result<()> { Ok(()) }
}
impl std::io::Seek for SeekLog {
    fn seek(&mut self, pos: std::io::SeekFrom) -> std::io::Result<u64> {
        G_F_SEEKS.fetch_add(1, Relaxed);
        if let std::io::SeekFrom::Start(p) = pos { G_F_SEEK_TO.store(p as usize, Relaxed); Ok(p) } else { Ok(0) }
    }
}
fn stub_md5_finalize(_c: md5::Context) -> md5::Digest {
    md5::Digest([0xA5; 16])
}

#[kani::proof]
#[kani::unwind(18)]
#[kani::stub(crate::metadata::write_blocks, stub_write_blocks_rec)]
#[kani::stub(md5::Context::finalize, stub_md5_finalize)]
pub(crate) fn k_encoder_finalize_noseektable() {
    let declared: bool = kani::any();
    let total: u64 = kani::any();
    kani::assume(total >= 1 && total < (1 << 36));
    let written: u64 = kani::any();
    kani::assume(written < (1 << 40));
    let start: u64 = kani::any();
    kani::assume(start < (1 << 32));
    let si = Streaminfo { minimum_block_size: 16, maximum_block_size: 16, minimum_frame_size: None, maximum_frame_size: None,
        sample_rate: 44100, channels: NonZero::new(1).unwrap(), bits_per_sample: sbc::<32>(16),
        total_samples: if declared { NonZero::new(total) } else { None }, md5: None };
    let mut e = Encoder { writer: Counter::new(SeekLog), start, options: EncoderOptions { max_partition_order: 0, mid_side: false,
        seektable_interval: None, max_lpc_order: None, window: Window::Rectangle, exhaustive_channel_correlation: false, use_rice2: false },
        caches: EncodingCaches::default(), blocks: BlockList::new(si), sample_rate: SampleRate::Hz44100, frame_number: FrameNumber(0),
        samples_written: written, seekpoints: Vec::new(), md5: md5::Context::new(), finalized: false };
    let res = e.finalize_inner();
    let ok = res.is_ok();
    let mismatch = matches!(res, Err(Error::SampleCountMismatch));
    let nosamples = matches!(res, Err(Error::NoSamples));
    let excessive = matches!(res, Err(Error::ExcessiveTotalSamples));
    std::mem::forget(res);
    if declared {
        vk_assert!(ok == (written == total), "a declared length must be matched exactly: neither short nor over-filled");
        vk_assert!(ok || mismatch, "a wrong sample count is reported as SampleCountMismatch");
    } else if written == 0 {
        vk_assert!(nosamples, "an empty stream cannot be finalized");
    } else if written >= (1 << 36) {
        vk_assert!(excessive, "more samples than STREAMINFO can express");
    } else {
        vk_assert!(ok && e.blocks.streaminfo().total_samples.map(|t| t.get()) == Some(written), "the true sample count is recorded");
    }
    if ok {
        vk_assert!(e.blocks.streaminfo().md5 == Some([0xA5; 16]), "the MD5 of the PCM is stored");
        vk_assert!(G_F_SEEKS.load(Relaxed) == 1 && G_F_SEEK_TO.load(Relaxed) as u64 == start, "the header is rewritten at the remembered start of the stream, nowhere else");
        vk_assert!(G_F_WRITES.load(Relaxed) == 1 && G_F_WRITE_AFTER_SEEK.load(Relaxed) == 1, "metadata blocks rewritten exactly once, after repositioning");
    } else {
        vk_assert!(G_F_SEEKS.load(Relaxed) == 0 && G_F_WRITES.load(Relaxed) == 0, "a failed finalize touches nothing");
    }
    let again = e.finalize_inner();
    let again_ok = again.is_ok();
    std::mem::forget(again);
    vk_assert!(again_ok && G_F_SEEKS.load(Relaxed) <= 1 && G_F_WRITES.load(Relaxed) <= 1, "finalizing twice is a no-op");
}

// ------------------------------------------------------------------ Encoder::finalize_inner: a failing rewrite is reported (C13)
// contract: if repositioning fails, or the sink rejects the rewritten metadata, finalize_inner returns the I/O error --
// it never reports success for a header that was not rewritten.  The metadata writer is replaced by "writes one byte
// through the writer it is handed and propagates the outcome"; the sink fails where the instance says.
pub(crate) struct FaultySink { fail_seek: bool, fail_write: bool, accepted: usize }
impl std::io::Write for FaultySink {
    fn write(&mut self, buf: &[u8]) -> std::io::Result<usize> {
        if self.fail_write { return Err(std::io::Error::from(std::io::ErrorKind::Other)); }
        self.accepted += buf.len();
        Ok(buf.len())
    }
    fn flush(&mut self) -> std::io::Result<()> { Ok(()) }
}
impl std::io::Seek for FaultySink {
    fn seek(&mut self, _pos: std::io::SeekFrom) -> std::io::Result<u64> {
        if self.fail_seek { Err(std::io::Error::from(std::io::ErrorKind::Other)) } else { Ok(0) }
    }
}
fn stub_write_blocks_one_byte<B: crate::metadata::AsBlockRef>(mut w: impl std::io::Write, _blocks: impl IntoIterator<Item = B>) -> Result<(), Error> {
    G_F_WRITES.fetch_add(1, Relaxed);
    match w.write(&[0x66]) {
        Ok(_) => Ok(()),
        Err(e) => Err(Error::Io(e)),
    }
}

macro_rules! k_encoder_finalize_fault {
    ($name:ident, $fail_seek:expr, $fail_write:expr) => {
#[kani::proof]
#[kani::unwind(18)]
#[kani::stub(crate::metadata::write_blocks, stub_write_blocks_one_byte)]
#[kani::stub(md5::Context::finalize, stub_md5_finalize)]
pub(crate) fn $name() {
    // fault position concrete per instance (symbolic: 15 min timeout)
    let fail_seek: bool = $fail_seek;
    let fail_write: bool = $fail_write;
    let si = Streaminfo { minimum_block_size: 16, maximum_block_size: 16, minimum_frame_size: None, maximum_frame_size: None,
        sample_rate: 44100, channels: NonZero::new(1).unwrap(), bits_per_sample: sbc::<32>(16), total_samples: None, md5: None };
    let mut e = Encoder { writer: Counter::new(FaultySink { fail_seek, fail_write, accepted: 0 }), start: 0, options: EncoderOptions { max_partition_order: 0, mid_side: false,
        seektable_interval: None, max_lpc_order: None, window: Window::Rectangle, exhaustive_channel_correlation: false, use_rice2: false },
        caches: EncodingCaches::default(), blocks: BlockList::new(si), sample_rate: SampleRate::Hz44100, frame_number: FrameNumber(1),
        samples_written: 16, seekpoints: Vec::new(), md5: md5::Context::new(), finalized: false };
    let res = e.finalize_inner();
    let ok = res.is_ok();
    std::mem::forget(res);
    vk_assert!(ok == (!fail_seek && !fail_write), "finalize reports success exactly when the stream was repositioned and the sink accepted the rewritten metadata");
    if fail_seek { vk_assert!(G_F_WRITES.load(Relaxed) == 0, "nothing is written when repositioning failed"); }
    if ok { vk_assert!(e.writer.stream().accepted == 1, "on success the rewritten metadata has reached the sink (not a buffer that is dropped)"); }
}
    };
}
k_encoder_finalize_fault!(k_encoder_finalize_fault_none, false, false);
k_encoder_finalize_fault!(k_encoder_finalize_fault_seek, true, false);
k_encoder_finalize_fault!(k_encoder_finalize_fault_write, false, true);

// ------------------------------------------------------------------ Encoder::finalize_inner: the three seek-table layouts (C09)
// contract, with two frames written (seek points p0 < p1, symbolic byte offsets) and the policy "every frame":
//   (a) placeholder table of 3 points reserved up front: still 3 points, the first two are p0, p1 as defined points, the
//       third stays a placeholder (placeholders only at the end, count unchanged => size unchanged)
//   (b) no table but PADDING of s bytes: if s >= 4 + 18*2 the padding shrinks by exactly that and a 2-point table appears
//       (total metadata size unchanged); otherwise nothing changes
//   (c) neither: nothing changes
fn mk_fin_encoder(layout: u8, padding: u32, o0: u64, o1: u64) -> Encoder<SeekLog> {
    use crate::metadata::{Padding, SeekTable, contiguous::Contiguous};
    let si = Streaminfo { minimum_block_size: 16, maximum_block_size: 16, minimum_frame_size: None, maximum_frame_size: None,
        sample_rate: 44100, channels: NonZero::new(1).unwrap(), bits_per_sample: sbc::<32>(16), total_samples: None, md5: None };
    let mut blocks = BlockList::new(si);
    if layout == 0 {
        let pts = vec![SeekPoint::Placeholder, SeekPoint::Placeholder, SeekPoint::Placeholder];
        blocks.insert(SeekTable { points: Contiguous::try_from(pts).unwrap() });
    } else if layout == 1 {
        blocks.insert(Padding { size: BlockSize::try_from(padding).unwrap() });
    }
    let seekpoints = vec![
        EncoderSeekPoint { sample_offset: 0, byte_offset: Some(o0), frame_samples: 16 },
        EncoderSeekPoint { sample_offset: 16, byte_offset: Some(o1), frame_samples: 16 },
    ];
    Encoder { writer: Counter::new(SeekLog), start: 0, options: EncoderOptions { max_partition_order: 0, mid_side: false,
        seektable_interval: Some(SeekTableInterval::Frames(NonZero::new(1).unwrap())), max_lpc_order: None, window: Window::Rectangle,
        exhaustive_channel_correlation: false, use_rice2: false },
        caches: EncodingCaches::default(), blocks, sample_rate: SampleRate::Hz44100, frame_number: FrameNumber(2),
        samples_written: 32, seekpoints, md5: md5::Context::new(), finalized: false }
}

macro_rules! k_encoder_finalize_layout {
    ($name:ident, $layout:expr) => {
        #[kani::proof]
        #[kani::unwind(18)]
        #[kani::stub(crate::metadata::write_blocks, stub_write_blocks_rec)]
        #[kani::stub(md5::Context::finalize, stub_md5_finalize)]
        pub(crate) fn $name() {
            use crate::metadata::{Padding, SeekTable};
            let o0: u64 = kani::any();
            let o1: u64 = kani::any();
            let padding: u32 = kani::any();
            kani::assume(padding >= 1 && padding < (1 << 24));
            let mut e = mk_fin_encoder($layout, padding, o0, o1);
            let res = e.finalize_inner();
            let ok = res.is_ok();
            std::mem::forget(res);
            vk_assert!(ok, "finalize succeeds");
            let table: Option<&SeekTable> = e.blocks.get();
            let pad: Option<&Padding> = e.blocks.get();
            match $layout {
                0 => {
                    let t = table.unwrap();
                    vk_assert!(t.points.len() == 3, "a reserved table keeps its size");
                    vk_assert!(t.points[0] == SeekPoint::Defined { sample_offset: 0, byte_offset: o0, frame_samples: 16 }
                        && t.points[1] == SeekPoint::Defined { sample_offset: 16, byte_offset: o1, frame_samples: 16 }, "defined points are the frames' (first sample, byte offset, length)");
                    vk_assert!(t.points[2] == SeekPoint::Placeholder, "unused slots stay placeholders, at the end");
                }
                1 => {
                    let need = 4 + 18 * 2;
                    if padding >= need {
                        let t = table.unwrap();
                        vk_assert!(t.points.len() == 2 && u32::from(pad.unwrap().size) == padding - need, "the table is carved out of the padding: total metadata size unchanged");
                        vk_assert!(t.points[0] == SeekPoint::Defined { sample_offset: 0, byte_offset: o0, frame_samples: 16 }
                            && t.points[1] == SeekPoint::Defined { sample_offset: 16, byte_offset: o1, frame_samples: 16 }, "defined points are the frames' (first sample, byte offset, length)");
                    } else {
                        vk_assert!(table.is_none() && u32::from(pad.unwrap().size) == padding, "too little padding: nothing changes");
                    }
                }
                _ => vk_assert!(table.is_none() && pad.is_none(), "no table and no padding: nothing is added"),
            }
        }
    };
}
// measured: layouts (a) and (b) do not finish (> 15 min each: boxed filter iterator, Contiguous::try_extend / Vec collect);
// only layout (c) is registered
k_encoder_finalize_layout!(k_encoder_finalize_no_room, 2u8);

// ------------------------------------------------------------------ FlacStreamWriter::write: argument validation and frame counter (C15 / C16)
// contract (frame builder, subset header writer and subframe encoder replaced by recorders), mono path:
//   Err, without panicking, for: bits-per-sample outside {8,12,16,20,24,32}; 0 or > 8 channels; a sample count not
//   divisible by the channel count; no samples at all; a sample rate that has no self-describing header code;
//   otherwise Ok: exactly one header is written, carrying block size = samples per channel, the rate, the depth,
//   the channel assignment and the current frame number; the counter then advances by one (wrapping to 0 after 2^36-1);
//   the frame builder is never handed an empty slice
static G_S_HDR_BS: AtomicUsize = AtomicUsize::new(0);
static G_S_HDR_RATE: AtomicUsize = AtomicUsize::new(0);
static G_S_HDR_BPS: AtomicUsize = AtomicUsize::new(0);
static G_S_HDR_CH: AtomicUsize = AtomicUsize::new(0);
static G_S_HDR_NUM: AtomicI64 = AtomicI64::new(-1);
static G_S_HDR_REFS: AtomicUsize = AtomicUsize::new(0);
static G_S_HDRS: AtomicUsize = AtomicUsize::new(0);
fn stub_write_subset_rec<W: std::io::Write>(h: &crate::stream::FrameHeader, _w: &mut W) -> Result<(), Error> {
    G_S_HDRS.fetch_add(1, Relaxed);
    G_S_HDR_BS.store(u16::from(h.block_size) as usize, Relaxed);
    G_S_HDR_RATE.store(u32::from(h.sample_rate) as usize, Relaxed);
    G_S_HDR_BPS.store(u32::from(h.bits_per_sample) as usize, Relaxed);
    G_S_HDR_CH.store(h.channel_assignment.count() as usize, Relaxed);
    G_S_HDR_NUM.store(h.frame_number.0 as i64, Relaxed);
    let refs = matches!(h.sample_rate, SampleRate::Streaminfo(_)) || matches!(h.bits_per_sample, crate::stream::BitsPerSample::Streaminfo(_));
    G_S_HDR_REFS.store(refs as usize, Relaxed);
    Ok(())
}
fn stub_fill_from_samples_shape<'f>(f: &'f mut Frame, samples: &[i32]) -> &'f Frame {
    if samples.is_empty() { G_W_EMPTY.fetch_add(1, Relaxed); }
    crate::audio::verif_k::set_interleaved_len(f, samples.len());
    f
}
fn stub_encode_subframe_empty<'c>(_o: &EncoderOptions, cache: &'c mut ChannelCache, _ch: CorrelatedChannel) -> Result<&'c BitRecorder<u32, BigEndian>, Error> {
    cache.constant_output.clear();
    Ok(&cache.constant_output)
}

macro_rules! k_stream_writer_write_validation {
    ($name:ident, $channels:expr, $n:expr) => {
#[kani::proof]
#[kani::unwind(8)]
#[kani::stub(crate::audio::Frame::fill_from_samples, stub_fill_from_samples_shape)]
#[kani::stub(crate::stream::FrameHeader::write_subset, stub_write_subset_rec)]
#[kani::stub(encode_subframe, stub_encode_subframe_empty)]
pub(crate) fn $name() {
    let rate: u32 = match kani::any::<u8>() % 6 { 0 => 44100, 1 => 96000, 2 => 12345, 3 => 700001, 4 => 1000000, _ => 2000000 };
    let bps: u32 = kani::any();
    kani::assume(bps <= 34);
    // channel count and sample count are concrete per instance (a symbolic channel count drags every multi-channel path in)
    let channels: u8 = $channels;
    let data: [i32; 3] = kani::any();
    let n: usize = $n;
    let start_num: u64 = match kani::any::<u8>() % 3 { 0 => 0, 1 => 77, _ => (1 << 36) - 1 };
    let mut w = FlacStreamWriter::new(crate::verif_k::bits::ByteSink::<8>::new(), Options::fast().no_padding().no_seektable());
    w.frame_number = FrameNumber(start_num);
    let res = w.write(rate, channels, bps, &data[..n]);
    let ok = res.is_ok();
    std::mem::forget(res);
    let subset_bps = bps == 8 || bps == 12 || bps == 16 || bps == 20 || bps == 24 || bps == 32;
    let subset_rate = rate == 44100 || rate == 96000 || rate == 12345 || rate == 1000000; // 700001 and 2000000 have no header code
    let valid = subset_bps && channels == 1 && n >= 1 && subset_rate;
    vk_assert!(G_W_EMPTY.load(Relaxed) == 0, "an empty sample slice must be rejected before it reaches the frame builder (which cannot take it)");
    if channels == 1 {
        vk_assert!(ok == valid, "Ok exactly for self-describing parameters and a non-empty whole number of PCM frames");
    } else if channels == 0 || channels > 8 || n % (channels as usize) != 0 || n == 0 || !subset_bps || !subset_rate {
        vk_assert!(!ok, "invalid arguments are rejected");
    }
    if ok && channels == 1 {
        vk_assert!(G_S_HDRS.load(Relaxed) == 1, "exactly one frame header per write");
        vk_assert!(G_S_HDR_BS.load(Relaxed) == n && G_S_HDR_RATE.load(Relaxed) == rate as usize && G_S_HDR_BPS.load(Relaxed) == bps as usize && G_S_HDR_CH.load(Relaxed) == 1,
            "the header carries the frame's own length, rate, depth and channel count");
        vk_assert!(G_S_HDR_REFS.load(Relaxed) == 0, "a raw stream frame never refers to a STREAMINFO block");
        vk_assert!(G_S_HDR_NUM.load(Relaxed) as u64 == start_num, "the header carries the current frame number");
        vk_assert!(w.frame_number.0 == if start_num == (1 << 36) - 1 { 0 } else { start_num + 1 }, "the counter advances by one per frame and wraps to 0 after 2^36-1");
    }
    if !ok { vk_assert!(w.frame_number.0 == start_num, "a rejected write does not consume a frame number"); }
}
    };
}
// measured: the mono instances (valid path through CrcWriter/BitWriter, and the empty-input path) do not finish in 10 min;
// only the channel-count / divisibility rejections are registered
k_stream_writer_write_validation!(k_stream_writer_zero_channels, 0, 2);
k_stream_writer_write_validation!(k_stream_writer_nine_channels, 9, 0);
k_stream_writer_write_validation!(k_stream_writer_stereo_odd, 2, 3);

// ------------------------------------------------------------------ front-end constructors: declared-length validation (C15)
// contract (Encoder::new replaced by a recorder that reports what it was asked for): for every channel count 0..=255,
// bits-per-sample 1..=32 and declared total
//   FlacByteWriter::new:   total bytes must be a non-zero whole number of PCM frames (channels x ceil(bps/8) bytes), else
//                          SamplesNotDivisibleByChannels / InvalidTotalBytes; the encoder is asked for bytes / (channels x width) PCM frames
//   FlacSampleWriter::new: total samples must be a non-zero multiple of the channel count, else SamplesNotDivisibleByChannels /
//                          InvalidTotalSamples; the encoder is asked for samples / channels PCM frames
//   bits-per-sample 0 or > 32 => InvalidBitsPerSample;   never panics (in particular not for 0 channels)
static G_N_TOTAL: AtomicI64 = AtomicI64::new(-2);
static G_N_CALLS: AtomicUsize = AtomicUsize::new(0);
fn stub_encoder_new<W: std::io::Write + std::io::Seek>(_w: W, _o: Options, _rate: u32, _bps: SignedBitCount<32>, _channels: u8,
    total: Option<NonZero<u64>>) -> Result<Encoder<W>, Error> {
    G_N_CALLS.fetch_add(1, Relaxed);
    G_N_TOTAL.store(total.map_or(-1, |t| t.get() as i64), Relaxed);
    Err(Error::NoBestLpcOrder) // marker: "validation passed, encoder construction reached"
}

macro_rules! k_frontend_new_declared_totals {
    ($name:ident, $byte_writer:expr, $channels:expr, $bps:expr) => {
#[kani::proof]
#[kani::unwind(4)]
#[kani::stub(Encoder::new, stub_encoder_new)]
pub(crate) fn $name() {
    // channel count and depth are concrete per instance (a symbolic 64-bit divisor does not finish); the total is symbolic
    let channels: u8 = $channels;
    let bps: u32 = $bps;
    let declared: bool = kani::any();
    let total: u64 = kani::any();
    kani::assume(total < (1 << 40));
    let t = if declared { Some(total) } else { None };
    let byte_writer: bool = $byte_writer;
    let width = (bps.div_ceil(8)) as u64;
    let unit = if byte_writer { channels as u64 * width } else { channels as u64 };
    let r: Result<(), Error> = if byte_writer {
        FlacByteWriter::<LogSink, crate::byteorder::LittleEndian>::new(LogSink { written: 0, seeks: 0 }, Options::fast().no_padding().no_seektable(), 44100, bps, channels, t).map(|_| ())
    } else {
        FlacSampleWriter::new(LogSink { written: 0, seeks: 0 }, Options::fast().no_padding().no_seektable(), 44100, bps, channels, t).map(|_| ())
    };
    let reached = matches!(r, Err(Error::NoBestLpcOrder));
    let bad_bps = matches!(r, Err(Error::InvalidBitsPerSample));
    let not_div = matches!(r, Err(Error::SamplesNotDivisibleByChannels));
    let zero = matches!(r, Err(Error::InvalidTotalBytes)) || matches!(r, Err(Error::InvalidTotalSamples));
    std::mem::forget(r);
    if bps == 0 || bps > 32 {
        vk_assert!(bad_bps, "bits-per-sample outside 1..=32 is InvalidBitsPerSample");
    } else if !declared {
        vk_assert!(reached && G_N_TOTAL.load(Relaxed) == -1, "no declared length: the encoder is asked for an open-ended stream");
    } else if unit == 0 || total % unit != 0 {
        vk_assert!(not_div, "a declared length that is not a whole number of PCM frames is rejected (also for 0 channels: no division by zero)");
    } else if total == 0 {
        vk_assert!(zero, "a declared length of zero is rejected");
    } else {
        vk_assert!(reached && G_N_TOTAL.load(Relaxed) == (total / unit) as i64, "the encoder is asked for exactly total / (size of a PCM frame) PCM frames");
    }
}
    };
}
k_frontend_new_declared_totals!(k_frontend_new_bytes_2x16, true, 2, 16);
k_frontend_new_declared_totals!(k_frontend_new_bytes_3x20, true, 3, 20);
k_frontend_new_declared_totals!(k_frontend_new_bytes_0ch, true, 0, 16);
k_frontend_new_declared_totals!(k_frontend_new_samples_2ch, false, 2, 24);
k_frontend_new_declared_totals!(k_frontend_new_samples_0ch, false, 0, 24);
k_frontend_new_declared_totals!(k_frontend_new_bps33, false, 2, 33);
k_frontend_new_declared_totals!(k_frontend_new_bps0, true, 2, 0);

// FlacStreamWriter::write with more than 65535 samples per channel (InvalidBlockSize): built with a shape-only frame stub and removed --
// everything behind Frame::resize runs CBMC out of memory even for a concrete length (same wall as the mono instances above).

// ------------------------------------------------------------------ autocorrelate: every LPC order the options admit is accepted (C15)
// contract: requires 1 <= max_lpc_order <= 32 (exactly what Options::max_lpc_order admits, K-options_setters);
//   ensures no panic, min(order + 1, n) lags, lag 0 first
#[kani::proof]
#[kani::unwind(4)]
pub(crate) fn k_autocorrelate_accepts_documented_orders() {
    let order: u8 = kani::any();
    kani::assume(order >= 1 && order <= 32);
    // whole numbers as samples: the float sums are then exact, and NaN/inf stay out of the picture
    let a: i8 = kani::any();
    let b: i8 = kani::any();
    let w = [a as f64, b as f64];
    let n: usize = if kani::any() { 1 } else { 2 };
    let r = autocorrelate(&w[..n], NonZero::new(order).unwrap());
    vk_assert!(r.len() == n, "autocorrelate yields min(order + 1, samples) lags for every order the options admit (1..=32)");
    let e0 = (a as i32 * a as i32 + if n > 1 { b as i32 * b as i32 } else { 0 }) as f64;
    vk_assert!(r[0] == e0, "lag 0 is the energy of the window");
}

// ------------------------------------------------------------------ correlate_channels_exhaustive (C01 / C02): NOT under contract
// A harness was built (encode_subframe replaced by a recorder of the channel it is asked to code, outputs of arbitrary size, the
// two outputs handed back identified by address) and removed: it verified, but cover statements showed that no path on which
// LeftSide or SideRight is chosen survives Kani's allocator model (the failing __rust_dealloc checks cut them), so the
// obligation was vacuous for exactly the arms it was meant to decide.  A vacuous obligation is worse than none.
