// crate::verif_k — shared verification support compiled into the crate under cfg(kani)
#![allow(dead_code, unused_imports, unused_macros)]

#[path = "/verif/harness/bits.rs"]
pub(crate) mod bits;

#[path = "/verif/harness/tape.rs"]
pub(crate) mod tape;

#[path = "/verif/spec/spec.rs"]
pub(crate) mod spec;

#[path = "/verif/harness/specdec.rs"]
pub(crate) mod specdec;

#[path = "/verif/harness/specenc.rs"]
pub(crate) mod specenc;

#[path = "/verif/harness/spechdr.rs"]
pub(crate) mod spechdr;

#[path = "/verif/harness/dep.rs"]
pub(crate) mod dep;

// concrete playback tests written by the runner (only compiled by `cargo kani playback`)
#[cfg(test)]
#[path = "/verif/.work/playback.rs"]
mod playback;

/// An obligation that could not be decided for a reason that is not a fault of
/// the code under verification (model capacity exceeded etc.).  The runner
/// classifies failures whose description starts with "UNDECIDED" as exit 2.
macro_rules! vk_undecided {
    ($cond:expr, $msg:literal) => {
        kani::assert($cond, concat!("UNDECIDED: ", $msg))
    };
}
pub(crate) use vk_undecided;

/// A property assertion; the description is what the runner reports.
macro_rules! vk_assert {
    ($cond:expr, $msg:literal) => {
        kani::assert($cond, concat!("VK: ", $msg))
    };
}
pub(crate) use vk_assert;

// ------------------------------------------------------------------ crate::Counter (byte accounting used for frame sizes and seek offsets)
// contract: the count advances by exactly the number of bytes the inner stream accepted / delivered
// (not by the size of the caller's buffer), and errors leave it unchanged
pub(crate) struct Shorty {
    pub accept: usize,
    pub fail: bool,
}
impl std::io::Write for Shorty {
    fn write(&mut self, buf: &[u8]) -> std::io::Result<usize> {
        if self.fail { return Err(std::io::Error::from(std::io::ErrorKind::Other)); }
        Ok(if buf.len() < self.accept { buf.len() } else { self.accept })
    }
    fn flush(&mut self) -> std::io::Result<()> { Ok(()) }
}
impl std::io::Read for Shorty {
    fn read(&mut self, buf: &mut [u8]) -> std::io::Result<usize> {
        if self.fail { return Err(std::io::Error::from(std::io::ErrorKind::Other)); }
        Ok(if buf.len() < self.accept { buf.len() } else { self.accept })
    }
}

#[kani::proof]
pub(crate) fn k_counter_counts_accepted_bytes() {
    use std::io::{Read, Write};
    let accept: usize = kani::any();
    kani::assume(accept <= 8);
    let fail: bool = kani::any();
    let start: u64 = kani::any();
    kani::assume(start < (1 << 60));
    let mut c = crate::Counter::new(Shorty { accept, fail });
    c.count = start;
    let buf = [0u8; 5];
    let n: usize = kani::any();
    kani::assume(n <= 5);
    match c.write(&buf[..n]) {
        Ok(k) => kani::assert(!fail && k == n.min(accept) && c.count == start + k as u64, "VK: Counter::write counts exactly the bytes the inner writer accepted"),
        Err(_) => kani::assert(fail && c.count == start, "VK: Counter::write error leaves the count unchanged"),
    }
    let mut c = crate::Counter::new(Shorty { accept, fail });
    c.count = start;
    let mut rbuf = [0u8; 5];
    match c.read(&mut rbuf[..n]) {
        Ok(k) => kani::assert(!fail && k == n.min(accept) && c.count == start + k as u64, "VK: Counter::read counts exactly the bytes delivered"),
        Err(_) => kani::assert(fail && c.count == start, "VK: Counter::read error leaves the count unchanged"),
    }
}
