// crate::verif_k — shared verification support compiled into the crate under cfg(kani)
#![allow(dead_code, unused_imports, unused_macros)]

#[path = "/verif/harness/bits.rs"]
pub(crate) mod bits;

#[path = "/verif/harness/tape.rs"]
pub(crate) mod tape;

#[path = "/verif/spec/spec.rs"]
pub(crate) mod spec;

#[path = "/verif/harness/specdec.rs"]
pub(crate) mod specdec;

#[path = "/verif/harness/specenc.rs"]
pub(crate) mod specenc;

#[path = "/verif/harness/spechdr.rs"]
pub(crate) mod spechdr;

/// An obligation that could not be decided for a reason that is not a fault of
/// the code under verification (model capacity exceeded etc.).  The runner
/// classifies failures whose description starts with "UNDECIDED" as exit 2.
macro_rules! vk_undecided {
    ($cond:expr, $msg:literal) => {
        kani::assert($cond, concat!("UNDECIDED: ", $msg))
    };
}
pub(crate) use vk_undecided;

/// A property assertion; the description is what the runner reports.
macro_rules! vk_assert {
    ($cond:expr, $msg:literal) => {
        kani::assert($cond, concat!("VK: ", $msg))
    };
}
pub(crate) use vk_assert;
