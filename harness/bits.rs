// Dependency contract for `bitstream-io` (BigEndian): a loop-free, bit-exact
// model of an MSB-first bit stream of bounded capacity.
//
// `BitBuf<L>` holds L*64 bits.  As a *reader* it yields the bits between `pos`
// and `len` MSB-first and fails with an I/O error (EOF by default) once `len`
// is exceeded; with symbolic limbs and symbolic `len` a parse from a `BitBuf`
// is a parse from every bit string of up to L*64 bits truncated at every
// point.  As a *writer* it appends MSB-first, rejects values that do not fit
// the requested width exactly as `bitstream_io::BitWriter` does, and can be
// told to fail once a symbolic byte budget is exhausted (I/O fault injection).
//
// What is assumed about the real library (and only this): fields are
// concatenated MSB-first; signed fields are two's complement at the stated
// width; `write_unary::<S>(n)` is n bits of !S followed by S, `read_unary`
// its inverse; `byte_align` pads with zero bits / discards to the boundary;
// `read_to`/`write_from` move whole bytes in big-endian order
// (`read_as_to::<LittleEndian>` in little-endian order); out-of-range values
// and widths larger than the integer type are `InvalidInput` errors.

use bitstream_io::{
    BitCount, BitRead, BitWrite, Endianness, Numeric, Primitive, SignedBitCount, SignedInteger,
    UnsignedInteger,
};
use std::io;

#[inline(always)]
fn err(kind: io::ErrorKind) -> io::Error {
    io::Error::from(kind)
}

#[derive(Clone)]
pub(crate) struct BitBuf<const L: usize> {
    pub limbs: [u64; L],
    /// number of valid bits (write cursor, read limit)
    pub len: u32,
    /// read cursor
    pub pos: u32,
    /// ghost: some read hit the end / injected fault
    pub rd_failed: bool,
    /// kind of error handed out when a read fails
    pub rd_err_eof: bool,
    /// ghost: a write exceeded the capacity of the model (not a fault of the code)
    pub overflow: bool,
    /// writes fail once `len` would exceed this many bits
    pub wr_budget: u32,
    /// ghost: some write failed because of `wr_budget`
    pub wr_failed: bool,
}

#[inline(always)]
fn mask64(n: u32) -> u64 {
    if n >= 64 { u64::MAX } else { (1u64 << n) - 1 }
}

// ---- loop-free integer conversions through the Numeric interface ----

macro_rules! to_u64_body {
    ($t:ident, $v:ident) => {{
        let mut out: u64 = ($v).to_u8() as u64;
        if $t::BITS_SIZE > 8 {
            out |= ((($v) >> 8).to_u8() as u64) << 8;
        }
        if $t::BITS_SIZE > 16 {
            out |= ((($v) >> 16).to_u8() as u64) << 16;
            out |= ((($v) >> 24).to_u8() as u64) << 24;
        }
        if $t::BITS_SIZE > 32 {
            out |= ((($v) >> 32).to_u8() as u64) << 32;
            out |= ((($v) >> 40).to_u8() as u64) << 40;
            out |= ((($v) >> 48).to_u8() as u64) << 48;
            out |= ((($v) >> 56).to_u8() as u64) << 56;
        }
        out
    }};
}

macro_rules! from_u64_body {
    ($t:ident, $v:ident) => {{
        let mut out: $t = $t::from_u8($v as u8);
        if $t::BITS_SIZE > 8 {
            out |= $t::from_u8(($v >> 8) as u8) << 8;
        }
        if $t::BITS_SIZE > 16 {
            out |= $t::from_u8(($v >> 16) as u8) << 16;
            out |= $t::from_u8(($v >> 24) as u8) << 24;
        }
        if $t::BITS_SIZE > 32 {
            out |= $t::from_u8(($v >> 32) as u8) << 32;
            out |= $t::from_u8(($v >> 40) as u8) << 40;
            out |= $t::from_u8(($v >> 48) as u8) << 48;
            out |= $t::from_u8(($v >> 56) as u8) << 56;
        }
        out
    }};
}

/// raw two's-complement / unsigned bit pattern of `v`, zero-extended to 64 bits
pub(crate) fn num_to_u64<N: Numeric>(v: N) -> u64 {
    to_u64_body!(N, v)
}

/// value of type N whose low `N::BITS_SIZE` bits are those of `v`
pub(crate) fn num_from_u64<N: Numeric>(v: u64) -> N {
    from_u64_body!(N, v)
}

#[inline(always)]
fn sign_extend(raw: u64, bits: u32) -> i64 {
    // bits in 1..=64
    if bits >= 64 {
        raw as i64
    } else {
        let sh = 64 - bits;
        ((raw << sh) as i64) >> sh
    }
}

impl<const L: usize> BitBuf<L> {
    pub const CAP: u32 = {
        assert!(L >= 1 && L <= 8);
        (L as u32) * 64
    };

    pub fn empty() -> Self {
        Self {
            limbs: [0; L],
            len: 0,
            pos: 0,
            rd_failed: false,
            rd_err_eof: true,
            overflow: false,
            wr_budget: u32::MAX,
            wr_failed: false,
        }
    }

    /// every bit string of at most CAP bits, truncated anywhere
    pub fn any() -> Self {
        let limbs: [u64; L] = kani::any();
        let len: u32 = kani::any();
        kani::assume(len <= Self::CAP);
        Self {
            limbs,
            len,
            pos: 0,
            rd_failed: false,
            rd_err_eof: kani::any(),
            overflow: false,
            wr_budget: u32::MAX,
            wr_failed: false,
        }
    }

    /// every bit string of exactly CAP bits (no truncation), for functional obligations
    pub fn any_full() -> Self {
        let mut b = Self::any();
        b.len = Self::CAP;
        b.rd_err_eof = true;
        b
    }

    /// rewind for reading back what was written
    pub fn rewind(&mut self) {
        self.pos = 0;
    }

    pub fn remaining(&self) -> u32 {
        self.len - self.pos
    }

    pub fn exhausted(&self) -> bool {
        self.pos == self.len
    }

    /// n bits (0..=64) starting at bit `at`, no cursor movement, no bounds check beyond CAP
    pub fn peek(&self, at: u32, n: u32) -> u64 {
        if n == 0 {
            return 0;
        }
        let i = (at / 64) as usize;
        let off = at % 64;
        let hi = if i < L { self.limbs[i] } else { 0 } as u128;
        let lo = if i + 1 < L { self.limbs[i + 1] } else { 0 } as u128;
        let comb = (hi << 64) | lo;
        ((comb << off) >> (128 - n)) as u64
    }

    fn poke(&mut self, at: u32, n: u32, v: u64) {
        // precondition: at + n <= CAP, bits at..at+n currently zero, n in 1..=64
        let i = (at / 64) as usize;
        let off = at % 64;
        let val = ((v as u128) << (128 - n)) >> off;
        if i < L {
            self.limbs[i] |= (val >> 64) as u64;
        }
        if i + 1 < L {
            self.limbs[i + 1] |= val as u64;
        }
    }

    fn rd_fail(&mut self) -> io::Error {
        self.rd_failed = true;
        if self.rd_err_eof {
            err(io::ErrorKind::UnexpectedEof)
        } else {
            err(io::ErrorKind::Other)
        }
    }

    /// read n (0..=64) bits
    pub fn take(&mut self, n: u32) -> io::Result<u64> {
        if n > self.len - self.pos {
            return Err(self.rd_fail());
        }
        let v = self.peek(self.pos, n);
        self.pos += n;
        Ok(v)
    }

    /// append n (0..=64) bits, v < 2^n
    pub fn put(&mut self, n: u32, v: u64) -> io::Result<()> {
        if n == 0 {
            return Ok(());
        }
        if n > Self::CAP - self.len {
            self.overflow = true;
            return Err(err(io::ErrorKind::WriteZero));
        }
        if self.len + n > self.wr_budget {
            self.wr_failed = true;
            return Err(err(io::ErrorKind::Other));
        }
        self.poke(self.len, n, v);
        self.len += n;
        Ok(())
    }

    /// append n zero (or one) bits, any n
    fn put_run(&mut self, n: u32, ones: bool) -> io::Result<()> {
        if n > Self::CAP - self.len {
            self.overflow = true;
            return Err(err(io::ErrorKind::WriteZero));
        }
        if self.len + n > self.wr_budget {
            self.wr_failed = true;
            return Err(err(io::ErrorKind::Other));
        }
        if ones {
            // only short runs of ones are ever needed (frame number prefix)
            if n > 64 {
                self.overflow = true;
                return Err(err(io::ErrorKind::WriteZero));
            }
            if n > 0 {
                self.poke(self.len, n, mask64(n));
            }
        }
        self.len += n;
        Ok(())
    }

    /// whole stream as (bits, length) when it fits 128 bits — for spec comparison
    pub fn as_u128(&self) -> (u128, u32) {
        let hi = if L > 0 { self.limbs[0] } else { 0 } as u128;
        let lo = if L > 1 { self.limbs[1] } else { 0 } as u128;
        ((hi << 64) | lo, self.len)
    }

    /// byte i of the stream (zero beyond the end)
    pub fn byte(&self, i: u32) -> u8 {
        self.peek(i * 8, 8) as u8
    }
}

impl<const L: usize> BitRead for BitBuf<L> {
    fn read_bit(&mut self) -> io::Result<bool> {
        self.take(1).map(|b| b == 1)
    }

    fn read_unsigned_counted<const MAX: u32, U>(&mut self, bits: BitCount<MAX>) -> io::Result<U>
    where
        U: UnsignedInteger,
    {
        let n = u32::from(bits);
        if n > U::BITS_SIZE {
            return Err(err(io::ErrorKind::InvalidInput));
        }
        let v = self.take(n)?;
        Ok(num_from_u64::<U>(v))
    }

    fn read_signed_counted<const MAX: u32, S>(
        &mut self,
        bits: impl TryInto<SignedBitCount<MAX>>,
    ) -> io::Result<S>
    where
        S: SignedInteger,
    {
        let bits: SignedBitCount<MAX> = bits
            .try_into()
            .map_err(|_| err(io::ErrorKind::InvalidInput))?;
        let n = u32::from(bits);
        if n > S::BITS_SIZE {
            return Err(err(io::ErrorKind::InvalidInput));
        }
        let raw = self.take(n)?;
        Ok(num_from_u64::<S>(sign_extend(raw, n) as u64))
    }

    fn read_to<V>(&mut self) -> io::Result<V>
    where
        V: Primitive,
    {
        let mut buffer = V::buffer();
        for b in buffer.as_mut().iter_mut() {
            *b = self.take(8)? as u8;
        }
        Ok(V::from_be_bytes(buffer))
    }

    fn read_as_to<F, V>(&mut self) -> io::Result<V>
    where
        F: Endianness,
        V: Primitive,
    {
        let mut buffer = V::buffer();
        for b in buffer.as_mut().iter_mut() {
            *b = self.take(8)? as u8;
        }
        Ok(F::bytes_to_primitive(buffer))
    }

    fn skip(&mut self, bits: u32) -> io::Result<()> {
        if bits > self.len - self.pos {
            return Err(self.rd_fail());
        }
        self.pos += bits;
        Ok(())
    }

    fn read_bytes(&mut self, buf: &mut [u8]) -> io::Result<()> {
        for b in buf.iter_mut() {
            *b = self.take(8)? as u8;
        }
        Ok(())
    }

    fn read_to_vec(&mut self, bytes: usize) -> io::Result<Vec<u8>> {
        // the library reads in bounded chunks; the observable contract is
        // "exactly `bytes` bytes or an error", with allocation bounded by what
        // the stream actually holds
        if (bytes as u64) * 8 > (self.len - self.pos) as u64 {
            return Err(self.rd_fail());
        }
        let mut v = Vec::with_capacity(bytes);
        for _ in 0..bytes {
            v.push(self.take(8)? as u8);
        }
        Ok(v)
    }

    fn read_unary<const STOP_BIT: u8>(&mut self) -> io::Result<u32> {
        // loop-free: nine 64-bit windows cover every capacity up to 8 limbs
        let start = self.pos;
        let mut p = self.pos;
        macro_rules! round {
            () => {
                if p >= self.len {
                    self.pos = self.len;
                    return Err(self.rd_fail());
                }
                let mut w = self.peek(p, 64);
                if STOP_BIT == 0 {
                    w = !w;
                }
                let lz = if w == 0 { 64 } else { w.leading_zeros() };
                if lz < 64 {
                    if p + lz >= self.len {
                        self.pos = self.len;
                        return Err(self.rd_fail());
                    }
                    self.pos = p + lz + 1;
                    return Ok(p + lz - start);
                }
                p += 64;
            };
        }
        round!();
        round!();
        round!();
        round!();
        round!();
        round!();
        round!();
        round!();
        round!();
        self.pos = self.len;
        Err(self.rd_fail())
    }

    fn byte_aligned(&self) -> bool {
        self.pos % 8 == 0
    }

    fn byte_align(&mut self) {
        let r = self.pos % 8;
        if r != 0 {
            // the real reader drops the partial byte it has already fetched
            self.pos += 8 - r;
            if self.pos > self.len {
                self.pos = self.len;
            }
        }
    }
}

impl<const L: usize> BitWrite for BitBuf<L> {
    fn write_unsigned_counted<const BITS: u32, U>(
        &mut self,
        bits: BitCount<BITS>,
        value: U,
    ) -> io::Result<()>
    where
        U: UnsignedInteger,
    {
        let n = u32::from(bits);
        if n > U::BITS_SIZE {
            return Err(err(io::ErrorKind::InvalidInput));
        }
        let v = num_to_u64::<U>(value);
        if n < 64 && (v >> n) != 0 {
            return Err(err(io::ErrorKind::InvalidInput));
        }
        self.put(n, v)
    }

    fn write_signed_counted<const MAX: u32, S>(
        &mut self,
        bits: impl TryInto<SignedBitCount<MAX>>,
        value: S,
    ) -> io::Result<()>
    where
        S: SignedInteger,
    {
        let bits: SignedBitCount<MAX> = bits
            .try_into()
            .map_err(|_| err(io::ErrorKind::InvalidInput))?;
        let n = u32::from(bits);
        if n > S::BITS_SIZE {
            return Err(err(io::ErrorKind::InvalidInput));
        }
        let v = sign_extend(num_to_u64::<S>(value), S::BITS_SIZE);
        if n < 64 {
            let lo = -(1i64 << (n - 1));
            let hi = (1i64 << (n - 1)) - 1;
            if v < lo || v > hi {
                return Err(err(io::ErrorKind::InvalidInput));
            }
        }
        self.put(n, (v as u64) & mask64(n))
    }

    fn write_from<V>(&mut self, value: V) -> io::Result<()>
    where
        V: Primitive,
    {
        let bytes = value.to_be_bytes();
        for b in bytes.as_ref().iter() {
            self.put(8, *b as u64)?;
        }
        Ok(())
    }

    fn write_as_from<F, V>(&mut self, value: V) -> io::Result<()>
    where
        F: Endianness,
        V: Primitive,
    {
        let bytes = F::primitive_to_bytes(value);
        for b in bytes.as_ref().iter() {
            self.put(8, *b as u64)?;
        }
        Ok(())
    }

    fn pad(&mut self, bits: u32) -> io::Result<()> {
        self.put_run(bits, false)
    }

    fn write_bytes(&mut self, buf: &[u8]) -> io::Result<()> {
        for b in buf.iter() {
            self.put(8, *b as u64)?;
        }
        Ok(())
    }

    fn write_unary<const STOP_BIT: u8>(&mut self, value: u32) -> io::Result<()> {
        self.put_run(value, STOP_BIT == 0)?;
        self.put(1, STOP_BIT as u64)
    }

    fn byte_aligned(&self) -> bool {
        self.len % 8 == 0
    }

    fn byte_align(&mut self) -> io::Result<()> {
        let r = self.len % 8;
        if r != 0 {
            self.put_run(8 - r, false)?;
        }
        Ok(())
    }
}

/// A byte-level `Read` over a `BitBuf`'s content (for the real `BitReader` /
/// `CrcReader` stack): hands out at most `chunk` bytes per call.
pub(crate) struct ByteSrc<const N: usize> {
    pub data: [u8; N],
    pub len: usize,
    pub pos: usize,
    pub failed: bool,
}

impl<const N: usize> ByteSrc<N> {
    pub fn any() -> Self {
        let len: usize = kani::any();
        kani::assume(len <= N);
        Self {
            data: kani::any(),
            len,
            pos: 0,
            failed: false,
        }
    }
    pub fn full(data: [u8; N]) -> Self {
        Self {
            data,
            len: N,
            pos: 0,
            failed: false,
        }
    }
}

impl<const N: usize> io::Read for ByteSrc<N> {
    fn read(&mut self, buf: &mut [u8]) -> io::Result<usize> {
        // one byte per call: the weakest behaviour `Read` allows, which makes
        // every consumer exercise its short-read handling
        if buf.is_empty() {
            return Ok(0);
        }
        if self.pos >= self.len {
            self.failed = true;
            return Ok(0);
        }
        buf[0] = self.data[self.pos];
        self.pos += 1;
        Ok(1)
    }
}

/// A byte sink with fault injection: accepts bytes into a fixed array, fails
/// every call once `budget` bytes were delivered.
pub(crate) struct ByteSink<const N: usize> {
    pub data: [u8; N],
    pub len: usize,
    pub budget: usize,
    pub failed: bool,
    pub overflow: bool,
}

impl<const N: usize> ByteSink<N> {
    pub fn new() -> Self {
        Self {
            data: [0; N],
            len: 0,
            budget: usize::MAX,
            failed: false,
            overflow: false,
        }
    }
}

impl<const N: usize> io::Write for ByteSink<N> {
    fn write(&mut self, buf: &[u8]) -> io::Result<usize> {
        if buf.is_empty() {
            return Ok(0);
        }
        if self.len >= self.budget {
            self.failed = true;
            return Err(err(io::ErrorKind::Other));
        }
        if self.len >= N {
            self.overflow = true;
            return Err(err(io::ErrorKind::WriteZero));
        }
        self.data[self.len] = buf[0];
        self.len += 1;
        Ok(1)
    }
    fn flush(&mut self) -> io::Result<()> {
        Ok(())
    }
}
