// Field-level dependency contract for `bitstream-io`: a stream is a sequence of
// fields (kind, width, value).  This is the abstraction used where field widths
// and positions are data dependent (residuals, subframes): a bit-exact model
// (bits.rs) makes every later position symbolic and does not scale.
//
// Reading works in three regimes, chosen per read by the state of the tape:
//   * replay  (pos < len): hand out the recorded field; the request must have the
//             recorded kind and width, otherwise `shape_mismatch` is set;
//   * failed  (sticky): every read fails with the configured I/O error;
//   * oracle  (pos == len): a fresh, arbitrary value of the requested width is
//             generated and recorded — so "the real parser on a fresh tape"
//             ranges over every input at field granularity, and a second
//             parser (the RFC reference, or the other implementation) run on
//             the rewound tape sees exactly the same input.
// Writing appends fields with the range checks `bitstream_io::BitWriter` performs.
//
// Assumed about the real library: an n-bit field written is an n-bit field read
// back with the same value (unsigned, two's complement signed, unary), fields
// are independent of their neighbours, `byte_align`/`pad` are zero filler,
// `read_to`/`write_from` move whole bytes most significant first.

use super::bits::{num_from_u64, num_to_u64};
use bitstream_io::{
    BitCount, BitRead, BitWrite, Endianness, Numeric, Primitive, SignedBitCount, SignedInteger,
    UnsignedInteger,
};
use std::io;

pub(crate) const K_U: u8 = 0; // unsigned, `width` bits
pub(crate) const K_S: u8 = 1; // two's complement, `width` bits (value stored sign-extended)
pub(crate) const K_UN0: u8 = 2; // unary, stop bit 0, value = count
pub(crate) const K_UN1: u8 = 3; // unary, stop bit 1
pub(crate) const K_ALIGN: u8 = 4; // filler to the next byte boundary
pub(crate) const K_SKIP: u8 = 5; // `width` bits skipped / padded

#[derive(Copy, Clone, PartialEq, Eq)]
pub(crate) struct Field {
    pub kind: u8,
    pub width: u32,
    pub val: u64,
}

pub(crate) struct Tape<const N: usize> {
    pub f: [Field; N],
    pub len: usize,
    pub pos: usize,
    /// reads may fail (truncation / I/O fault at an arbitrary read)
    pub may_fail: bool,
    pub failed: bool,
    pub err_eof: bool,
    pub shape_mismatch: bool,
    /// the model ran out of field slots (not a fault of the code)
    pub overflow: bool,
    /// bit position modulo 8 of the cursor (reader) / of the end (writer)
    pub rd_bit: u32,
    pub wr_bit: u32,
    /// writer fault injection: fail every write after this many fields
    pub wr_budget: usize,
    pub wr_failed: bool,
    /// oracle reads are recorded for a later replay (off: pure oracle, cheaper)
    pub record: bool,
}

#[inline(always)]
fn ioerr(kind: io::ErrorKind) -> io::Error {
    io::Error::from(kind)
}

#[inline(always)]
fn mask64(n: u32) -> u64 {
    if n >= 64 { u64::MAX } else { (1u64 << n) - 1 }
}

#[inline(always)]
fn sext(raw: u64, bits: u32) -> i64 {
    if bits == 0 {
        0
    } else if bits >= 64 {
        raw as i64
    } else {
        let sh = 64 - bits;
        ((raw << sh) as i64) >> sh
    }
}

impl<const N: usize> Tape<N> {
    pub fn new() -> Self {
        Self {
            f: [Field { kind: 0, width: 0, val: 0 }; N],
            len: 0,
            pos: 0,
            may_fail: false,
            failed: false,
            err_eof: true,
            shape_mismatch: false,
            overflow: false,
            rd_bit: 0,
            wr_bit: 0,
            wr_budget: usize::MAX,
            wr_failed: false,
            record: true,
        }
    }

    /// every input, including every truncation / read fault
    pub fn faulty() -> Self {
        let mut t = Self::new();
        t.may_fail = true;
        t.err_eof = kani::any();
        t
    }

    /// concrete leading fields (structure concrete, values symbolic)
    pub fn preload(&mut self, kind: u8, width: u32, val: u64) {
        self.f[self.len] = Field { kind, width, val };
        self.len += 1;
    }

    pub fn rewind(&mut self) {
        self.pos = 0;
        self.rd_bit = 0;
    }

    pub fn consumed_all(&self) -> bool {
        self.pos == self.len
    }

    fn fail(&mut self) -> io::Error {
        self.failed = true;
        if self.err_eof { ioerr(io::ErrorKind::UnexpectedEof) } else { ioerr(io::ErrorKind::Other) }
    }

    /// A read that fails on a width error still moves the cursor.  This is deliberate: CBMC merges
    /// the early-return path with the normal path at the end of each (inlined) callee, and a
    /// cursor that differs between the two becomes a symbolic index for every later field.
    /// After an error the stream is never read again, so the cursor value is unobservable.
    fn bump(&mut self) {
        if self.pos < self.len {
            self.pos += 1;
        }
    }

    /// core read: returns the raw value of a field of the given kind/width
    pub fn get(&mut self, kind: u8, width: u32) -> io::Result<u64> {
        if self.pos < self.len {
            let fld = self.f[self.pos];
            // the same bits read with the other signedness are still the same bits: hand over the reinterpreted
            // pattern (bit-faithful) instead of declaring the grammar broken
            let reinterpret = fld.kind != kind && fld.width == width && (fld.kind == K_U || fld.kind == K_S) && (kind == K_U || kind == K_S);
            if (fld.kind != kind || fld.width != width) && !reinterpret {
                self.shape_mismatch = true;
            }
            self.pos += 1;
            self.rd_bit = (self.rd_bit + Self::bits_of(kind, width, fld.val)) % 8;
            if reinterpret {
                return Ok(if kind == K_U { fld.val & mask64(width) } else { sext(fld.val & mask64(width), width) as u64 });
            }
            return Ok(fld.val);
        }
        if self.failed {
            return Err(self.fail());
        }
        if self.may_fail && kani::any() {
            return Err(self.fail());
        }
        if self.len >= N {
            self.overflow = true;
            return Err(self.fail());
        }
        let raw: u64 = kani::any();
        let val = match kind {
            K_U => raw & mask64(width),
            K_S => sext(raw & mask64(width), width) as u64,
            K_UN0 | K_UN1 => raw & 0xFFFF_FFFF,
            _ => 0,
        };
        if self.record {
            self.f[self.len] = Field { kind, width, val };
            self.len += 1;
            self.pos += 1;
        }
        self.rd_bit = (self.rd_bit + Self::bits_of(kind, width, val)) % 8;
        Ok(val)
    }

    #[inline(always)]
    fn bits_of(kind: u8, width: u32, val: u64) -> u32 {
        match kind {
            K_UN0 | K_UN1 => ((val as u32) % 8 + 1) % 8,
            _ => width % 8,
        }
    }

    /// core write
    pub fn push(&mut self, kind: u8, width: u32, val: u64) -> io::Result<()> {
        if self.len >= self.wr_budget {
            self.wr_failed = true;
            return Err(ioerr(io::ErrorKind::Other));
        }
        if self.len >= N {
            self.overflow = true;
            return Err(ioerr(io::ErrorKind::WriteZero));
        }
        self.f[self.len] = Field { kind, width, val };
        self.len += 1;
        self.wr_bit = (self.wr_bit + Self::bits_of(kind, width, val)) % 8;
        Ok(())
    }

    // ---- plain accessors for reference decoders (Option instead of io::Result)
    pub fn u(&mut self, n: u32) -> Option<u64> {
        self.get(K_U, n).ok()
    }
    pub fn s(&mut self, n: u32) -> Option<i64> {
        self.get(K_S, n).ok().map(|v| v as i64)
    }
    pub fn unary1(&mut self) -> Option<u32> {
        self.get(K_UN1, 0).ok().map(|v| v as u32)
    }
    pub fn unary0(&mut self) -> Option<u32> {
        self.get(K_UN0, 0).ok().map(|v| v as u32)
    }

    /// total width in bits of fields [from, to) — unary fields count value+1
    pub fn bit_len(&self, from: usize, to: usize) -> u64 {
        let mut total = 0u64;
        let mut i = from;
        while i < to {
            let fld = self.f[i];
            total += match fld.kind {
                K_UN0 | K_UN1 => fld.val + 1,
                _ => fld.width as u64,
            };
            i += 1;
        }
        total
    }
}

impl<const N: usize> BitRead for Tape<N> {
    fn read_bit(&mut self) -> io::Result<bool> {
        self.get(K_U, 1).map(|b| b == 1)
    }

    fn read_unsigned_counted<const MAX: u32, U>(&mut self, bits: BitCount<MAX>) -> io::Result<U>
    where
        U: UnsignedInteger,
    {
        let n = u32::from(bits);
        if n > U::BITS_SIZE {
            self.bump();
            return Err(ioerr(io::ErrorKind::InvalidInput));
        }
        let v = self.get(K_U, n)?;
        Ok(num_from_u64::<U>(v))
    }

    fn read_signed_counted<const MAX: u32, S>(
        &mut self,
        bits: impl TryInto<SignedBitCount<MAX>>,
    ) -> io::Result<S>
    where
        S: SignedInteger,
    {
        let bits: SignedBitCount<MAX> = bits
            .try_into()
            .map_err(|_| ioerr(io::ErrorKind::InvalidInput))?;
        let n = u32::from(bits);
        if n > S::BITS_SIZE {
            self.bump();
            return Err(ioerr(io::ErrorKind::InvalidInput));
        }
        let v = self.get(K_S, n)?;
        Ok(num_from_u64::<S>(v))
    }

    fn read_to<V>(&mut self) -> io::Result<V>
    where
        V: Primitive,
    {
        let mut buffer = V::buffer();
        for b in buffer.as_mut().iter_mut() {
            *b = self.get(K_U, 8)? as u8;
        }
        Ok(V::from_be_bytes(buffer))
    }

    fn read_as_to<F, V>(&mut self) -> io::Result<V>
    where
        F: Endianness,
        V: Primitive,
    {
        let mut buffer = V::buffer();
        for b in buffer.as_mut().iter_mut() {
            *b = self.get(K_U, 8)? as u8;
        }
        Ok(F::bytes_to_primitive(buffer))
    }

    fn skip(&mut self, bits: u32) -> io::Result<()> {
        if bits == 0 {
            return Ok(());
        }
        self.get(K_SKIP, bits).map(|_| ())
    }

    fn read_bytes(&mut self, buf: &mut [u8]) -> io::Result<()> {
        for b in buf.iter_mut() {
            *b = self.get(K_U, 8)? as u8;
        }
        Ok(())
    }

    fn read_to_vec(&mut self, bytes: usize) -> io::Result<Vec<u8>> {
        let mut v = Vec::new();
        for _ in 0..bytes {
            v.push(self.get(K_U, 8)? as u8);
        }
        Ok(v)
    }

    fn read_unary<const STOP_BIT: u8>(&mut self) -> io::Result<u32> {
        self.get(if STOP_BIT == 0 { K_UN0 } else { K_UN1 }, 0)
            .map(|v| v as u32)
    }

    fn byte_aligned(&self) -> bool {
        self.rd_bit == 0
    }

    fn byte_align(&mut self) {
        // filler bits are part of the input but never looked at by the real reader
        if self.rd_bit != 0 {
            let w = 8 - self.rd_bit;
            let _ = self.get(K_ALIGN, w);
            self.rd_bit = 0;
        }
    }
}

impl<const N: usize> BitWrite for Tape<N> {
    fn write_unsigned_counted<const BITS: u32, U>(
        &mut self,
        bits: BitCount<BITS>,
        value: U,
    ) -> io::Result<()>
    where
        U: UnsignedInteger,
    {
        let n = u32::from(bits);
        if n > U::BITS_SIZE {
            return Err(ioerr(io::ErrorKind::InvalidInput));
        }
        let v = num_to_u64::<U>(value);
        if n < 64 && (v >> n) != 0 {
            return Err(ioerr(io::ErrorKind::InvalidInput));
        }
        self.push(K_U, n, v)
    }

    fn write_signed_counted<const MAX: u32, S>(
        &mut self,
        bits: impl TryInto<SignedBitCount<MAX>>,
        value: S,
    ) -> io::Result<()>
    where
        S: SignedInteger,
    {
        let bits: SignedBitCount<MAX> = bits
            .try_into()
            .map_err(|_| ioerr(io::ErrorKind::InvalidInput))?;
        let n = u32::from(bits);
        if n > S::BITS_SIZE {
            return Err(ioerr(io::ErrorKind::InvalidInput));
        }
        let v = sext(num_to_u64::<S>(value), S::BITS_SIZE);
        if n < 64 {
            let lo = -(1i64 << (n - 1));
            let hi = (1i64 << (n - 1)) - 1;
            if v < lo || v > hi {
                return Err(ioerr(io::ErrorKind::InvalidInput));
            }
        }
        self.push(K_S, n, v as u64)
    }

    fn write_from<V>(&mut self, value: V) -> io::Result<()>
    where
        V: Primitive,
    {
        let bytes = value.to_be_bytes();
        for b in bytes.as_ref().iter() {
            self.push(K_U, 8, *b as u64)?;
        }
        Ok(())
    }

    fn write_as_from<F, V>(&mut self, value: V) -> io::Result<()>
    where
        F: Endianness,
        V: Primitive,
    {
        let bytes = F::primitive_to_bytes(value);
        for b in bytes.as_ref().iter() {
            self.push(K_U, 8, *b as u64)?;
        }
        Ok(())
    }

    fn pad(&mut self, bits: u32) -> io::Result<()> {
        if bits == 0 {
            return Ok(());
        }
        self.push(K_SKIP, bits, 0)
    }

    fn write_bytes(&mut self, buf: &[u8]) -> io::Result<()> {
        for b in buf.iter() {
            self.push(K_U, 8, *b as u64)?;
        }
        Ok(())
    }

    fn write_unary<const STOP_BIT: u8>(&mut self, value: u32) -> io::Result<()> {
        self.push(if STOP_BIT == 0 { K_UN0 } else { K_UN1 }, 0, value as u64)
    }

    fn byte_aligned(&self) -> bool {
        self.wr_bit == 0
    }

    fn byte_align(&mut self) -> io::Result<()> {
        if self.wr_bit != 0 {
            let w = 8 - self.wr_bit;
            self.push(K_ALIGN, w, 0)?;
            self.wr_bit = 0;
        }
        Ok(())
    }
}
