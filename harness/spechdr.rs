// RFC 9639 §9.1 frame header, written from the RFC as a function of the header's bits.
use super::bits::BitBuf;

#[derive(Copy, Clone, PartialEq, Eq, Debug)]
pub(crate) enum V {
    Valid,
    MustReject,
    /// the RFC reserves it but a decoder that ignores it still decodes correctly (reserved bit set, over-long number coding)
    DontCare,
}

#[derive(Copy, Clone, PartialEq, Eq, Debug)]
pub(crate) struct SpecHeader {
    pub blocking: bool,
    pub bs_code: u32,
    pub rate_code: u32,
    pub ch_code: u32,
    pub bps_code: u32,
    pub number: u64,
    pub number_bytes: u32,
    /// block size in samples
    pub block_size: u32,
    /// sample rate in Hz, None = take it from STREAMINFO
    pub rate: Option<u32>,
    /// bits per sample, None = take it from STREAMINFO
    pub bps: Option<u32>,
    /// header length in bits including the CRC-8
    pub bits: u32,
}

pub(crate) fn common_block_size(code: u32) -> u32 {
    match code {
        1 => 192,
        2 => 576,
        3 => 1152,
        4 => 2304,
        5 => 4608,
        8 => 256,
        9 => 512,
        10 => 1024,
        11 => 2048,
        12 => 4096,
        13 => 8192,
        14 => 16384,
        15 => 32768,
        _ => 0,
    }
}

pub(crate) fn common_rate(code: u32) -> u32 {
    match code {
        1 => 88200,
        2 => 176400,
        3 => 192000,
        4 => 8000,
        5 => 16000,
        6 => 22050,
        7 => 24000,
        8 => 32000,
        9 => 44100,
        10 => 48000,
        11 => 96000,
        _ => 0,
    }
}

pub(crate) fn bps_of_code(code: u32) -> u32 {
    match code {
        1 => 8,
        2 => 12,
        4 => 16,
        5 => 20,
        6 => 24,
        7 => 32,
        _ => 0,
    }
}

/// parse the header at the start of `b` (which must hold at least 128 bits)
pub(crate) fn spec_parse<const L: usize>(b: &BitBuf<L>) -> (V, SpecHeader) {
    let mut h = SpecHeader { blocking: false, bs_code: 0, rate_code: 0, ch_code: 0, bps_code: 0, number: 0, number_bytes: 0, block_size: 0, rate: None, bps: None, bits: 0 };
    let mut v = V::Valid;
    if b.peek(0, 15) != 0b111111111111100 {
        return (V::MustReject, h);
    }
    h.blocking = b.peek(15, 1) == 1;
    h.bs_code = b.peek(16, 4) as u32;
    h.rate_code = b.peek(20, 4) as u32;
    h.ch_code = b.peek(24, 4) as u32;
    h.bps_code = b.peek(28, 3) as u32;
    if h.bs_code == 0 || h.rate_code == 15 || h.ch_code > 10 || h.bps_code == 3 {
        return (V::MustReject, h);
    }
    if b.peek(31, 1) != 0 {
        v = V::DontCare; // reserved bit
    }
    // coded number, UTF-8 style, up to 36 bits
    let lead = b.peek(32, 8) as u32;
    let nbytes: u32 = if lead & 0x80 == 0 { 1 }
        else if lead & 0xE0 == 0xC0 { 2 }
        else if lead & 0xF0 == 0xE0 { 3 }
        else if lead & 0xF8 == 0xF0 { 4 }
        else if lead & 0xFC == 0xF8 { 5 }
        else if lead & 0xFE == 0xFC { 6 }
        else if lead == 0xFE { 7 }
        else { 0 };
    if nbytes == 0 {
        return (V::MustReject, h);
    }
    h.number_bytes = nbytes;
    let mut num: u64 = if nbytes == 1 { lead as u64 } else { (lead as u64) & (0x7Fu64 >> nbytes) };
    let mut pos = 40u32;
    let mut k = 1;
    while k < 7 {
        if k < nbytes {
            let c = b.peek(pos, 8);
            if c & 0xC0 != 0x80 {
                return (V::MustReject, h);
            }
            num = (num << 6) | (c & 0x3F);
            pos += 8;
        }
        k += 1;
    }
    h.number = num;
    // uncommon block size
    h.block_size = match h.bs_code {
        6 => { let x = b.peek(pos, 8) as u32 + 1; pos += 8; x }
        7 => { let x = b.peek(pos, 16) as u32 + 1; pos += 16; x }
        c => common_block_size(c),
    };
    if h.block_size > 65535 {
        return (V::MustReject, h);
    }
    h.rate = match h.rate_code {
        0 => None,
        12 => { let x = b.peek(pos, 8) as u32 * 1000; pos += 8; Some(x) }
        13 => { let x = b.peek(pos, 16) as u32; pos += 16; Some(x) }
        14 => { let x = b.peek(pos, 16) as u32 * 10; pos += 16; Some(x) }
        c => Some(common_rate(c)),
    };
    h.bps = if h.bps_code == 0 { None } else { Some(bps_of_code(h.bps_code)) };
    h.bits = pos + 8;
    (v, h)
}

pub(crate) fn channels_of_code(code: u32) -> u32 {
    if code < 8 { code + 1 } else { 2 }
}
