// harnesses for crate::decode (child module: sees private items)
#![allow(dead_code, unused_imports)]
use super::*;
use crate::verif_k::bits::BitBuf;
use crate::verif_k::spec;
use crate::verif_k::specenc::{self, PKind};
use crate::verif_k::tape::{Tape, K_S, K_U, K_UN1};
use crate::verif_k::{vk_assert, vk_undecided};
use PKind::{Escape, Rice, Zero};

fn any_i64_within(bits: u32) -> i64 {
    let v: i64 = kani::any();
    kani::assume(spec::fits(v, bits));
    v
}

// ------------------------------------------------------------------ read_residuals (valid streams)
//
// contract (RFC 9639 §9.2.7):
//   requires  the stream is the RFC coding (method, partition order, per-partition kind and
//             parameter) of residuals r[0..n] that are valid 32-bit residuals
//   ensures   Ok(()), residuals == r, exactly the coding's fields consumed, field grammar as RFC
macro_rules! k_read_residuals_valid {
    ($name:ident, $t:ty, $n:expr, $order:expr, $method:expr, $po:expr, [$($kind:expr),*], $unw:expr) => {
        #[kani::proof]
        #[kani::unwind($unw)]
        pub(crate) fn $name() {
            let kinds = [$($kind),*];
            let mut params = [0u32; 8];
            let mut i = 0;
            while i < kinds.len() { params[i] = kani::any(); kani::assume(params[i] <= 31); i += 1; }
            let mut r = [0i64; $n];
            let mut i = 0;
            while i < $n { r[i] = any_i64_within(32); i += 1; }
            kani::assume(specenc::residuals_valid($method, $po, $order, &r, &kinds, &params));
            let mut tape: Tape<24> = Tape::new();
            specenc::gen_residuals(&mut tape, $method, $po, $order, &r, &kinds, &params);
            let mut out: [$t; $n] = kani::any();
            let res = read_residuals::<_, $t>(&mut tape, $order, &mut out);
            vk_assert!(!tape.shape_mismatch, "read_residuals: field grammar differs from RFC 9639 9.2.7");
            vk_assert!(res.is_ok(), "read_residuals rejected a valid residual coding");
            let mut i = 0;
            while i < $n {
                vk_assert!(i64::from(out[i]) == r[i], "read_residuals: decoded residual differs from the coded value");
                i += 1;
            }
            vk_assert!(tape.consumed_all(), "read_residuals did not consume exactly the residual coding");
            kani::cover!(res.is_ok(), "valid coding decoded");
        }
    };
}
k_read_residuals_valid!(k_res_valid_i32_n4_o0_m0_p1_RR, i32, 4, 0, 0, 1, [Rice, Rice], 6);
k_read_residuals_valid!(k_res_valid_i32_n4_o0_m1_p2_RERZ, i32, 4, 0, 1, 2, [Rice, Escape, Rice, Zero], 6);
k_read_residuals_valid!(k_res_valid_i32_n3_o1_m0_p1_ER, i32, 3, 1, 0, 1, [Escape, Rice], 6);
k_read_residuals_valid!(k_res_valid_i32_n3_o2_m1_p0_R, i32, 3, 2, 1, 0, [Rice], 6);
k_read_residuals_valid!(k_res_valid_i64_n3_o1_m1_p1_RE, i64, 3, 1, 1, 1, [Rice, Escape], 6);
k_read_residuals_valid!(k_res_valid_i32_n2_o0_m0_p1_ZR, i32, 2, 0, 0, 1, [Zero, Rice], 6);
k_read_residuals_valid!(k_res_valid_i32_n1_o0_m1_p0_E, i32, 1, 0, 1, 0, [Escape], 6);

// ------------------------------------------------------------------ read_residuals (all inputs)
//
// contract: for every field sequence and every read fault
//   never panics;  a read fault is never swallowed (Err);
//   coding method 2/3 or a partition order that RFC 9639 §9.2.7 forbids for this block => Err
macro_rules! k_read_residuals_total {
    ($name:ident, $t:ty, $n:expr, $unw:expr) => {
        #[kani::proof]
        #[kani::unwind($unw)]
        pub(crate) fn $name() {
            let mut tape: Tape<4> = Tape::faulty();
            let method: u64 = kani::any();
            let po: u64 = kani::any();
            kani::assume(method < 4 && po < 16);
            tape.preload(K_U, 2, method);
            tape.preload(K_U, 4, po);
            tape.record = false;
            let order: usize = kani::any();
            kani::assume(order <= 3);
            let mut out: [$t; $n] = kani::any();
            let res = read_residuals::<_, $t>(&mut tape, order, &mut out);
            if tape.failed {
                vk_assert!(res.is_err(), "read fault / EOF swallowed by read_residuals");
            }
            if method > 1 {
                vk_assert!(res.is_err(), "reserved residual coding method accepted");
            }
            if !spec::part_ok(($n + order) as u32, order as u32, po as u32) {
                vk_assert!(res.is_err(), "partition order forbidden by RFC 9639 9.2.7 accepted");
            }
            kani::cover!(res.is_ok(), "some input accepted");
            kani::cover!(res.is_err() && !tape.failed, "some input rejected without a read fault");
        }
    };
}
k_read_residuals_total!(k_res_total_i32_n1, i32, 1, 3);
k_read_residuals_total!(k_res_total_i32_n2, i32, 2, 4);
k_read_residuals_total!(k_res_total_i32_n3, i32, 3, 5);
k_read_residuals_total!(k_res_total_i64_n2, i64, 2, 4);

// ------------------------------------------------------------------ predict
//
// contract (RFC 9639 §9.2.5/§9.2.6): channel = warm_up ++ residuals where residuals[i] is
// x[order+i] - ((Σ x[order+i-1-j]·c[j]) >> shift)   ==>   after predict(), channel == x.
// requires: x fits `bps` bits, residuals are valid 32-bit residuals, shift <= 31.
// Coefficients are *concrete* per instance: with symbolic coefficients the obligation asks a SAT
// solver to match two 64-bit multiplier circuits and does not finish (measured: > 15 min for
// n = 3, order = 1, with CaDiCaL, kissat, z3 and cvc5).  The fixed-predictor instances cover the
// complete coefficient space of FIXED subframes; for LPC the coefficient-generic statement is the
// Verus lemma L-LPC and these instances are its bounded link to the code.
macro_rules! k_predict_valid {
    ($name:ident, $t:ty, $bps:expr, $n:expr, [$($c:expr),*], $unw:expr) => {
        #[kani::proof]
        #[kani::unwind($unw)]
        pub(crate) fn $name() {
            let c: [i64; [$($c),*].len()] = [$($c),*];
            let order = c.len();
            let mut x = [0i64; $n];
            let mut i = 0;
            while i < $n { x[i] = any_i64_within($bps); i += 1; }
            let shift: u32 = kani::any();
            kani::assume(shift <= 31);
            let mut ch: [$t; $n] = [0; $n];
            let mut i = 0;
            while i < $n {
                let v = if i < order { x[i] } else { specenc::spec_residual(&x, i, order, &c, shift) };
                if i >= order {
                    kani::assume(v >= i32::MIN as i64 + 1 && v <= i32::MAX as i64); // valid residual
                }
                ch[i] = v as $t;
                i += 1;
            }
            predict::<$t>(&c, shift, &mut ch);
            let mut i = 0;
            while i < $n {
                vk_assert!(i64::from(ch[i]) == x[i], "predict does not restore the samples the residuals were computed from");
                i += 1;
            }
        }
    };
}
k_predict_valid!(k_predict_valid_i32_fixed1, i32, 32, 4, [1], 6);
k_predict_valid!(k_predict_valid_i32_fixed2, i32, 32, 4, [2, -1], 6);
k_predict_valid!(k_predict_valid_i32_fixed3, i32, 32, 5, [3, -3, 1], 7);
k_predict_valid!(k_predict_valid_i32_fixed4, i32, 32, 6, [4, -6, 4, -1], 8);
k_predict_valid!(k_predict_valid_i64_fixed2, i64, 33, 4, [2, -1], 6);
k_predict_valid!(k_predict_valid_i32_lpc_a, i32, 32, 4, [16383, -16384], 6);
k_predict_valid!(k_predict_valid_i32_lpc_b, i32, 24, 5, [1042, -399, -75], 7);
k_predict_valid!(k_predict_valid_i64_lpc_a, i64, 33, 4, [-16384, 16383], 6);

// contract: predict never panics, whatever the (malformed) stream supplied — all values
macro_rules! k_predict_total {
    ($name:ident, $t:ty, $n:expr, $order:expr, $unw:expr) => {
        #[kani::proof]
        #[kani::unwind($unw)]
        pub(crate) fn $name() {
            let mut c = [0i64; $order];
            let mut j = 0;
            while j < $order { c[j] = any_i64_within(15); j += 1; }
            let shift: u32 = kani::any();
            kani::assume(shift <= 31);
            let mut ch: [$t; $n] = kani::any();
            predict::<$t>(&c, shift, &mut ch);
        }
    };
}
k_predict_total!(k_predict_total_i32_n4_o2, i32, 4, 2, 6);
k_predict_total!(k_predict_total_i64_n4_o2, i64, 4, 2, 6);
k_predict_total!(k_predict_total_i32_n3_o0, i32, 3, 0, 5);

// ------------------------------------------------------------------ read_subframe (valid streams)
//
// contract (RFC 9639 §9.2): for the RFC coding of samples x[0..n] (each fitting bps - wasted bits)
// as a CONSTANT / VERBATIM / FIXED(order) / LPC(order, precision, shift, coefficients) subframe with
// `wasted` wasted bits:  Ok(()), channel[i] == x[i] << wasted, exactly the coding consumed.
fn sbc<const MAX: u32>(bits: u32) -> SignedBitCount<MAX> {
    match SignedBitCount::<MAX>::try_from(bits) {
        Ok(c) => c,
        Err(_) => {
            kani::assume(false);
            unreachable!()
        }
    }
}

#[derive(Copy, Clone)]
enum SubKind {
    Constant,
    Verbatim,
    Fixed,
    Lpc,
}

macro_rules! k_read_subframe_valid {
    ($name:ident, $max:expr, $bpslo:expr, $t:ty, $n:expr, $kind:expr, [$($c:expr),*], $has_wasted:expr,
     $method:expr, $po:expr, [$($pk:expr),*], $unw:expr) => {
        #[kani::proof]
        #[kani::unwind($unw)]
        pub(crate) fn $name() {
            let c: &[i64] = &[$($c),*];
            let order = c.len();
            let kinds = [$($pk),*];
            let bps: u32 = kani::any();
            kani::assume(bps >= $bpslo && bps <= $max);
            let wasted: u32 = if $has_wasted { kani::any() } else { 0 };
            kani::assume(wasted < bps);
            if $has_wasted { kani::assume(wasted >= 1); }
            let eff = bps - wasted;
            let mut x = [0i64; $n];
            let mut i = 0;
            while i < $n { x[i] = any_i64_within(eff); i += 1; }
            let mut params = [0u32; 8];
            let mut i = 0;
            while i < kinds.len() { params[i] = kani::any(); kani::assume(params[i] <= 31); i += 1; }
            let mut tape: Tape<24> = Tape::new();
            match $kind {
                SubKind::Constant => {
                    let mut i = 1;
                    while i < $n { kani::assume(x[i] == x[0]); i += 1; }
                    specenc::gen_subframe_header(&mut tape, specenc::T_CONSTANT, $has_wasted, wasted);
                    tape.preload(K_S, eff, x[0] as u64);
                }
                SubKind::Verbatim => {
                    specenc::gen_subframe_header(&mut tape, specenc::T_VERBATIM, $has_wasted, wasted);
                    let mut i = 0;
                    while i < $n { tape.preload(K_S, eff, x[i] as u64); i += 1; }
                }
                SubKind::Fixed => {
                    specenc::gen_subframe_header(&mut tape, specenc::t_fixed(order as u32), $has_wasted, wasted);
                    let ok = specenc::gen_predicted(&mut tape, eff, order, c, 0, None, &x, $method, $po, &kinds, &params);
                    kani::assume(ok);
                }
                SubKind::Lpc => {
                    let precision: u32 = kani::any();
                    kani::assume(precision >= 1 && precision <= 15);
                    let mut j = 0;
                    while j < order { kani::assume(spec::fits(c[j], precision)); j += 1; }
                    let shift: u32 = kani::any();
                    kani::assume(shift <= 15);
                    specenc::gen_subframe_header(&mut tape, specenc::t_lpc(order as u32), $has_wasted, wasted);
                    let ok = specenc::gen_predicted(&mut tape, eff, order, c, shift, Some((precision, shift)), &x, $method, $po, &kinds, &params);
                    kani::assume(ok);
                }
            }
            let mut out: [$t; $n] = kani::any();
            let res = read_subframe::<$max, _, $t>(&mut tape, sbc::<$max>(bps), &mut out);
            vk_assert!(!tape.shape_mismatch, "read_subframe: field grammar differs from RFC 9639 9.2");
            vk_assert!(res.is_ok(), "read_subframe rejected a valid subframe");
            let mut i = 0;
            while i < $n {
                vk_assert!(i64::from(out[i]) == x[i] << wasted, "read_subframe: decoded sample differs from the coded sample");
                i += 1;
            }
            vk_assert!(tape.consumed_all(), "read_subframe did not consume exactly the subframe");
            kani::cover!(res.is_ok(), "valid subframe decoded");
        }
    };
}
k_read_subframe_valid!(k_sub_valid_constant_w0, 32, 1, i32, 3, SubKind::Constant, [], false, 0, 0, [Rice], 5);
k_read_subframe_valid!(k_sub_valid_constant_w, 32, 1, i32, 3, SubKind::Constant, [], true, 0, 0, [Rice], 5);
k_read_subframe_valid!(k_sub_valid_verbatim_w0, 32, 1, i32, 3, SubKind::Verbatim, [], false, 0, 0, [Rice], 5);
k_read_subframe_valid!(k_sub_valid_verbatim_w, 32, 1, i32, 3, SubKind::Verbatim, [], true, 0, 0, [Rice], 5);
k_read_subframe_valid!(k_sub_valid_verbatim33, 33, 33, i64, 2, SubKind::Verbatim, [], true, 0, 0, [Rice], 4);
k_read_subframe_valid!(k_sub_valid_fixed0, 32, 1, i32, 2, SubKind::Fixed, [], false, 0, 1, [Rice, Escape], 5);
k_read_subframe_valid!(k_sub_valid_fixed1_w, 32, 1, i32, 3, SubKind::Fixed, [1], true, 1, 0, [Rice], 5);
k_read_subframe_valid!(k_sub_valid_lpc1, 32, 1, i32, 3, SubKind::Lpc, [-3], false, 0, 0, [Rice], 5);

// ------------------------------------------------------------------ read_subframe, modular
//
// For predictor orders >= 2 the whole chain (Rice decode -> prediction) does not finish in CBMC
// (measured: > 10 min for order 2, n = 4).  The obligation is therefore split the way modular
// verification prescribes: `read_residuals` is replaced by its contract (discharged separately by
// the k_res_valid_* / k_res_total_* obligations): "called once with this predictor order and a
// slice of block - order residuals; on Ok the slice holds the coded residuals".  What is proved
// here is everything read_subframe / read_fixed_subframe / read_lpc_subframe do around that call.
use std::sync::atomic::{AtomicI64, AtomicUsize, Ordering::Relaxed};
static G_RES: [AtomicI64; 8] = [const { AtomicI64::new(0) }; 8];
static G_ORDER: AtomicUsize = AtomicUsize::new(usize::MAX);
static G_LEN: AtomicUsize = AtomicUsize::new(usize::MAX);
static G_CALLS: AtomicUsize = AtomicUsize::new(0);
static G_FAIL: AtomicUsize = AtomicUsize::new(0);

fn stub_read_residuals<R: BitRead, I: SignedInteger>(
    _reader: &mut R,
    predictor_order: usize,
    residuals: &mut [I],
) -> Result<(), Error> {
    G_ORDER.store(predictor_order, Relaxed);
    G_LEN.store(residuals.len(), Relaxed);
    G_CALLS.fetch_add(1, Relaxed);
    if G_FAIL.load(Relaxed) != 0 {
        return Err(Error::InvalidPartitionOrder);
    }
    let mut i = 0;
    while i < residuals.len() {
        residuals[i] = I::from_i64(G_RES[i].load(Relaxed));
        i += 1;
    }
    Ok(())
}

macro_rules! k_read_subframe_modular {
    ($name:ident, $max:expr, $bpslo:expr, $t:ty, $n:expr, $kind:expr, [$($c:expr),*], $has_wasted:expr, $unw:expr) => {
        #[kani::proof]
        #[kani::unwind($unw)]
        #[kani::stub(read_residuals, stub_read_residuals)]
        pub(crate) fn $name() {
            let c: &[i64] = &[$($c),*];
            let order = c.len();
            let bps: u32 = kani::any();
            kani::assume(bps >= $bpslo && bps <= $max);
            let wasted: u32 = if $has_wasted { kani::any() } else { 0 };
            kani::assume(wasted < bps);
            if $has_wasted { kani::assume(wasted >= 1); }
            let eff = bps - wasted;
            let mut x = [0i64; $n];
            let mut i = 0;
            while i < $n { x[i] = any_i64_within(eff); i += 1; }
            let mut tape: Tape<40> = Tape::new();
            let mut shift: u32 = 0;
            match $kind {
                SubKind::Fixed => {
                    specenc::gen_subframe_header(&mut tape, specenc::t_fixed(order as u32), $has_wasted, wasted);
                    let mut i = 0;
                    while i < order { tape.preload(K_S, eff, x[i] as u64); i += 1; }
                }
                _ => {
                    let precision: u32 = kani::any();
                    kani::assume(precision >= 1 && precision <= 15);
                    let mut j = 0;
                    while j < order { kani::assume(spec::fits(c[j], precision)); j += 1; }
                    shift = kani::any();
                    kani::assume(shift <= 15);
                    specenc::gen_subframe_header(&mut tape, specenc::t_lpc(order as u32), $has_wasted, wasted);
                    let mut i = 0;
                    while i < order { tape.preload(K_S, eff, x[i] as u64); i += 1; }
                    tape.preload(K_U, 4, (precision - 1) as u64);
                    tape.preload(K_S, 5, shift as u64);
                    let mut j = 0;
                    while j < order { tape.preload(K_S, precision, c[j] as u64); j += 1; }
                }
            }
            // the residuals the (replaced) callee delivers: the RFC residuals of x
            let mut i = order;
            while i < $n {
                let r = specenc::spec_residual(&x, i, order, c, shift);
                kani::assume(r > i32::MIN as i64 && r <= i32::MAX as i64);
                G_RES[i - order].store(r, Relaxed);
                i += 1;
            }
            let callee_fails: bool = kani::any();
            G_FAIL.store(callee_fails as usize, Relaxed);
            let mut out: [$t; $n] = kani::any();
            let res = read_subframe::<$max, _, $t>(&mut tape, sbc::<$max>(bps), &mut out);
            vk_assert!(!tape.shape_mismatch, "read_subframe: field grammar differs from RFC 9639 9.2");
            vk_assert!(G_CALLS.load(Relaxed) == 1, "read_residuals must be called exactly once per predicted subframe");
            vk_assert!(G_ORDER.load(Relaxed) == order, "read_residuals called with the wrong predictor order");
            vk_assert!(G_LEN.load(Relaxed) == $n - order, "read_residuals called with the wrong residual count");
            vk_assert!(tape.consumed_all(), "read_subframe did not consume exactly the subframe");
            if callee_fails {
                vk_assert!(res.is_err(), "error from read_residuals swallowed");
            } else {
                vk_assert!(res.is_ok(), "read_subframe rejected a valid subframe");
                let mut i = 0;
                while i < $n {
                    vk_assert!(i64::from(out[i]) == x[i] << wasted, "read_subframe: decoded sample differs from the coded sample");
                    i += 1;
                }
            }
            kani::cover!(res.is_ok(), "valid subframe decoded");
        }
    };
}
k_read_subframe_modular!(k_sub_mod_fixed2, 32, 1, i32, 4, SubKind::Fixed, [2, -1], false, 6);
k_read_subframe_modular!(k_sub_mod_fixed3_w, 32, 1, i32, 5, SubKind::Fixed, [3, -3, 1], true, 7);
k_read_subframe_modular!(k_sub_mod_fixed4, 32, 1, i32, 6, SubKind::Fixed, [4, -6, 4, -1], false, 8);
k_read_subframe_modular!(k_sub_mod_fixed2_33, 33, 33, i64, 4, SubKind::Fixed, [2, -1], false, 6);
k_read_subframe_modular!(k_sub_mod_lpc2_w, 16, 16, i32, 4, SubKind::Lpc, [16383, -16384], true, 6);
k_read_subframe_modular!(k_sub_mod_lpc3, 24, 24, i32, 5, SubKind::Lpc, [1042, -399, -75], false, 7);
k_read_subframe_modular!(k_sub_mod_lpc3_33, 33, 33, i64, 5, SubKind::Lpc, [1042, -399, -75], false, 7);

// ------------------------------------------------------------------ read_subframe (all inputs), modular
//
// contract: for every field sequence and read fault, with read_residuals replaced by "any result":
//   never panics; read fault => Err; pad bit 1 / reserved type / wasted >= bps / order > block => Err
fn stub_read_residuals_any<R: BitRead, I: SignedInteger>(
    _reader: &mut R,
    _predictor_order: usize,
    residuals: &mut [I],
) -> Result<(), Error> {
    G_CALLS.fetch_add(1, Relaxed);
    if kani::any() {
        return Err(Error::InvalidPartitionOrder);
    }
    let mut i = 0;
    while i < residuals.len() {
        // any value read_residuals can deliver: 32-bit Rice or <= 31-bit escaped residuals
        let v: i32 = kani::any();
        residuals[i] = I::from_i64(v as i64);
        i += 1;
    }
    Ok(())
}

macro_rules! k_read_subframe_total {
    ($name:ident, $max:expr, $t:ty, $n:expr, $tlo:expr, $thi:expr, $unw:expr) => {
        #[kani::proof]
        #[kani::unwind($unw)]
        #[kani::stub(read_residuals, stub_read_residuals_any)]
        pub(crate) fn $name() {
            let mut tape: Tape<4> = Tape::faulty();
            let pad: u64 = kani::any();
            let ty: u64 = kani::any();
            kani::assume(pad <= 1 && ty >= $tlo && ty <= $thi);
            tape.preload(K_U, 1, pad);
            tape.preload(K_U, 6, ty);
            tape.record = false;
            let bps: u32 = kani::any();
            kani::assume(bps >= 1 && bps <= $max);
            let mut out: [$t; $n] = kani::any();
            let res = read_subframe::<$max, _, $t>(&mut tape, sbc::<$max>(bps), &mut out);
            if tape.failed {
                vk_assert!(res.is_err(), "read fault / EOF swallowed by read_subframe");
            }
            if pad == 1 {
                vk_assert!(res.is_err(), "subframe with non-zero padding bit accepted");
            }
            let reserved = (ty >= 2 && ty <= 7) || (ty >= 13 && ty <= 31);
            if reserved {
                vk_assert!(res.is_err(), "reserved subframe type accepted");
            }
            if ty >= 8 && ty <= 12 && (ty - 8) as usize > $n {
                vk_assert!(res.is_err(), "FIXED order larger than the block accepted");
            }
            if ty >= 32 && (ty - 31) as usize > $n {
                vk_assert!(res.is_err(), "LPC order larger than the block accepted");
            }
            kani::cover!(res.is_ok(), "some subframe accepted");
        }
    };
}
k_read_subframe_total!(k_sub_total_const_verbatim, 32, i32, 3, 0, 1, 5);
k_read_subframe_total!(k_sub_total_reserved, 32, i32, 3, 2, 31, 5);
k_read_subframe_total!(k_sub_total_fixed, 32, i32, 3, 8, 12, 5);
k_read_subframe_total!(k_sub_total_lpc, 32, i32, 3, 32, 63, 5);
k_read_subframe_total!(k_sub_total_lpc_wide, 33, i64, 3, 32, 63, 5);
k_read_subframe_total!(k_sub_total_fixed_wide, 33, i64, 3, 8, 12, 5);

// wasted bits: ExcessiveWastedBits iff wasted >= bps
#[kani::proof]
#[kani::unwind(4)]
pub(crate) fn k_sub_wasted_excess() {
    let mut tape: Tape<8> = Tape::new();
    let wasted: u32 = kani::any();
    kani::assume(wasted >= 1);
    specenc::gen_subframe_header(&mut tape, specenc::T_VERBATIM, true, wasted);
    tape.record = false;
    let bps: u32 = kani::any();
    kani::assume(bps >= 1 && bps <= 32);
    let mut out: [i32; 1] = kani::any();
    let res = read_subframe::<32, _, i32>(&mut tape, sbc::<32>(bps), &mut out);
    if wasted >= bps {
        vk_assert!(matches!(res, Err(Error::ExcessiveWastedBits)), "wasted bits >= bits-per-sample must be rejected");
    } else {
        vk_assert!(res.is_ok(), "legal wasted-bits count rejected");
    }
}

// ------------------------------------------------------------------ read_subframes (channel decorrelation)
//
// contract (RFC 9639 §9.2.3 / §4.2): for a frame whose subframes are the RFC coding of the channel
// pair chosen by the assignment (left/side, side/right, mid/side of (l, r); side one bit wider),
// Ok(()), buffer == [l..., r...], frame padded to a byte and the 16 CRC bits skipped.
use crate::audio::verif_k::{frame_samples, frame_shape};
use crate::stream::{BitsPerSample, BlockSize, ChannelAssignment, FrameHeader, FrameNumber, Independent, SampleRate};

fn hdr(bps: u32, block: u16, ca: ChannelAssignment) -> FrameHeader {
    FrameHeader {
        blocking_strategy: false,
        block_size: BlockSize::Uncommon8(block),
        sample_rate: SampleRate::Hz44100,
        channel_assignment: ca,
        bits_per_sample: BitsPerSample::from(sbc::<32>(bps)),
        frame_number: FrameNumber(0),
    }
}

fn gen_verbatim<const N: usize>(t: &mut Tape<N>, bits: u32, x: &[i64]) {
    specenc::gen_subframe_header(t, specenc::T_VERBATIM, false, 0);
    let mut i = 0;
    while i < x.len() {
        t.preload(K_S, bits, x[i] as u64);
        i += 1;
    }
}

fn gen_frame_tail<const N: usize>(t: &mut Tape<N>, bits_so_far: u32) {
    if bits_so_far % 8 != 0 {
        t.preload(crate::verif_k::tape::K_ALIGN, 8 - bits_so_far % 8, 0);
    }
    t.preload(crate::verif_k::tape::K_SKIP, 16, 0);
}

macro_rules! k_read_subframes_valid {
    ($name:ident, $bps:expr, $ca:expr, $which:expr, $unw:expr) => {
        #[kani::proof]
        #[kani::unwind($unw)]
        pub(crate) fn $name() {
            const B: usize = 2;
            let mut l = [0i64; B];
            let mut r = [0i64; B];
            let mut i = 0;
            while i < B { l[i] = any_i64_within($bps); r[i] = any_i64_within($bps); i += 1; }
            let mut c0 = [0i64; B];
            let mut c1 = [0i64; B];
            let (w0, w1): (u32, u32) = match $which { 1 => ($bps, $bps + 1), 2 => ($bps + 1, $bps), 3 => ($bps, $bps + 1), _ => ($bps, $bps) };
            let mut i = 0;
            while i < B {
                match $which {
                    1 => { c0[i] = l[i]; c1[i] = spec::side_of(l[i], r[i]); }
                    2 => { c0[i] = spec::side_of(l[i], r[i]); c1[i] = r[i]; }
                    3 => { c0[i] = spec::mid_of(l[i], r[i]); c1[i] = spec::side_of(l[i], r[i]); }
                    _ => { c0[i] = l[i]; c1[i] = r[i]; }
                }
                i += 1;
            }
            let mut tape: Tape<16> = Tape::new();
            gen_verbatim(&mut tape, w0, &c0);
            gen_verbatim(&mut tape, w1, &c1);
            gen_frame_tail(&mut tape, 2 * 8 + (B as u32) * (w0 + w1));
            let h = hdr($bps, B as u16, $ca);
            let mut buf = Frame::default();
            let res = read_subframes(&mut tape, &h, &mut buf);
            vk_assert!(!tape.shape_mismatch, "read_subframes: field grammar differs from RFC 9639 9.2");
            vk_assert!(res.is_ok(), "read_subframes rejected a valid frame body");
            let s = frame_samples(&buf);
            vk_assert!(s.len() == 2 * B, "frame buffer holds channels x block samples");
            let mut i = 0;
            while i < B {
                vk_assert!(s[i] as i64 == l[i], "left channel not restored");
                vk_assert!(s[B + i] as i64 == r[i], "right channel not restored");
                i += 1;
            }
            vk_assert!(frame_shape(&buf) == (2, B, $bps), "frame shape (channels, block size, bits-per-sample) as in the header");
            vk_assert!(tape.consumed_all(), "frame body, padding and CRC field consumed exactly");
        }
    };
}
k_read_subframes_valid!(k_frames_valid_indep_16, 16, ChannelAssignment::Independent(Independent::Stereo), 0, 5);
k_read_subframes_valid!(k_frames_valid_ls_16, 16, ChannelAssignment::LeftSide, 1, 5);
k_read_subframes_valid!(k_frames_valid_sr_16, 16, ChannelAssignment::SideRight, 2, 5);
k_read_subframes_valid!(k_frames_valid_ms_16, 16, ChannelAssignment::MidSide, 3, 5);
k_read_subframes_valid!(k_frames_valid_ls_31, 31, ChannelAssignment::LeftSide, 1, 5);
k_read_subframes_valid!(k_frames_valid_ms_31, 31, ChannelAssignment::MidSide, 3, 5);
k_read_subframes_valid!(k_frames_valid_ls_32, 32, ChannelAssignment::LeftSide, 1, 5);
k_read_subframes_valid!(k_frames_valid_sr_32, 32, ChannelAssignment::SideRight, 2, 5);
k_read_subframes_valid!(k_frames_valid_ms_32, 32, ChannelAssignment::MidSide, 3, 5);

// contract: read_subframes never panics on arbitrary (in-width) subframe contents — all values
macro_rules! k_read_subframes_total {
    ($name:ident, $bps:expr, $ca:expr, $w0:expr, $w1:expr, $unw:expr) => {
        #[kani::proof]
        #[kani::unwind($unw)]
        pub(crate) fn $name() {
            const B: usize = 2;
            let mut c0 = [0i64; B];
            let mut c1 = [0i64; B];
            let mut i = 0;
            while i < B { c0[i] = any_i64_within($w0); c1[i] = any_i64_within($w1); i += 1; }
            let mut tape: Tape<16> = Tape::new();
            gen_verbatim(&mut tape, $w0, &c0);
            gen_verbatim(&mut tape, $w1, &c1);
            gen_frame_tail(&mut tape, 2 * 8 + (B as u32) * ($w0 + $w1));
            let h = hdr($bps, B as u16, $ca);
            let mut buf = Frame::default();
            let res = read_subframes(&mut tape, &h, &mut buf);
            vk_assert!(res.is_ok(), "well-formed frame body rejected");
        }
    };
}
k_read_subframes_total!(k_frames_total_ls_31, 31, ChannelAssignment::LeftSide, 31, 32, 5);
k_read_subframes_total!(k_frames_total_sr_31, 31, ChannelAssignment::SideRight, 32, 31, 5);
k_read_subframes_total!(k_frames_total_ms_31, 31, ChannelAssignment::MidSide, 31, 32, 5);
k_read_subframes_total!(k_frames_total_ms_32, 32, ChannelAssignment::MidSide, 32, 33, 5);
k_read_subframes_total!(k_frames_total_ls_32, 32, ChannelAssignment::LeftSide, 32, 33, 5);

// ------------------------------------------------------------------ Decoder::read_frame, modular
//
// contract (with FrameHeader::read and read_subframes replaced by their contracts):
//   requires current_sample <= total (when the total is known)
//   ensures  total known, nothing left  => Ok(None), nothing read, state unchanged
//            Ok(Some(_)) => header Ok, block <= remaining, (block == remaining || block > 14),
//                           subframes Ok, CRC-16 over every byte consumed == 0,
//                           current_sample' == current_sample + block (<= total)
//            any other case => Err (or Ok(None) on EOF when the total is unknown), state unchanged
use crate::metadata::{BlockList, Streaminfo};
use crate::verif_k::bits::ByteSrc;
static G_HDR_KIND: AtomicUsize = AtomicUsize::new(0);
static G_HDR_BS: AtomicUsize = AtomicUsize::new(0);
static G_SUB_FAIL: AtomicUsize = AtomicUsize::new(0);

fn stub_header_read<R: std::io::Read>(reader: &mut R, _streaminfo: &Streaminfo) -> Result<FrameHeader, Error> {
    // consumes one byte (so that the enclosing CRC-16 reader sees header bytes)
    let mut b = [0u8; 1];
    let _ = reader.read(&mut b);
    match G_HDR_KIND.load(Relaxed) {
        0 => Ok(hdr(16, G_HDR_BS.load(Relaxed) as u16, ChannelAssignment::Independent(Independent::Mono))),
        1 => Err(Error::Io(std::io::Error::from(std::io::ErrorKind::UnexpectedEof))),
        _ => Err(Error::Crc8Mismatch),
    }
}

fn stub_read_subframes<R: BitRead>(mut reader: R, _header: &FrameHeader, _buf: &mut Frame) -> Result<(), Error> {
    // consumes the remaining two bytes of the 3-byte model frame
    let _ = reader.skip(16);
    if G_SUB_FAIL.load(Relaxed) != 0 {
        Err(Error::InvalidSubframeHeader)
    } else {
        Ok(())
    }
}

fn mk_streaminfo(total: Option<NonZero<u64>>) -> Streaminfo {
    Streaminfo {
        minimum_block_size: 16,
        maximum_block_size: 65535,
        minimum_frame_size: None,
        maximum_frame_size: None,
        sample_rate: 44100,
        channels: NonZero::new(1).unwrap(),
        bits_per_sample: sbc::<32>(16),
        total_samples: total,
        md5: None,
    }
}

#[kani::proof]
#[kani::unwind(4)]
#[kani::stub(crate::stream::FrameHeader::read, stub_header_read)]
#[kani::stub(read_subframes, stub_read_subframes)]
pub(crate) fn k_read_frame_contract() {
    let known: bool = kani::any();
    let total: u64 = kani::any();
    kani::assume(total >= 1 && total < (1 << 36));
    let current: u64 = kani::any();
    if known {
        kani::assume(current <= total);
    } else {
        kani::assume(current < (1 << 62));
    }
    let kind: usize = kani::any();
    kani::assume(kind <= 2);
    let bs: u16 = kani::any();
    kani::assume(bs >= 1);
    let sub_fail: bool = kani::any();
    G_HDR_KIND.store(kind, Relaxed);
    G_HDR_BS.store(bs as usize, Relaxed);
    G_SUB_FAIL.store(sub_fail as usize, Relaxed);
    let bytes: [u8; 3] = kani::any();
    let src = ByteSrc::<3>::full(bytes);
    let blocks = BlockList::new(mk_streaminfo(if known { NonZero::new(total) } else { None }));
    let mut d = Decoder::new(src, blocks);
    d.current_sample = current;
    let crc = spec::crc16_step(spec::crc16_step(spec::crc16_step(0, bytes[0]), bytes[1]), bytes[2]);
    let (is_some, is_none, is_err) = match d.read_frame() {
        Ok(Some(_)) => (true, false, false),
        Ok(None) => (false, true, false),
        Err(_) => (false, false, true),
    };
    let consumed = d.reader.pos;
    let remaining = total.wrapping_sub(current);
    if known && remaining == 0 {
        vk_assert!(is_none, "end of a stream of known length is Ok(None)");
        vk_assert!(consumed == 0 && d.current_sample == current, "nothing is read or changed at the end of the stream");
    } else if kind == 1 && !known {
        vk_assert!(is_none, "EOF at a frame boundary ends a stream of unknown length");
    } else if kind != 0 {
        vk_assert!(is_err, "frame header error must be reported");
    } else {
        let short_ok = !known || u64::from(bs) == remaining || bs > 14;
        let fits = !known || u64::from(bs) <= remaining;
        if is_some {
            vk_assert!(short_ok, "a block of <= 14 samples is only legal as the last block");
            vk_assert!(fits, "a frame holding more samples than STREAMINFO leaves must be rejected");
            vk_assert!(!sub_fail, "subframe error swallowed");
            vk_assert!(crc == 0, "frame released although CRC-16 over its bytes is not zero");
            vk_assert!(consumed == 3, "CRC-16 must cover every byte of the frame");
            vk_assert!(d.current_sample == current + u64::from(bs), "position advances by the block size");
        } else {
            vk_assert!(is_err, "a frame is either released or an error");
            vk_assert!(d.current_sample == current, "position unchanged on error");
            vk_assert!(!(short_ok && fits && !sub_fail && crc == 0), "a valid frame was rejected");
        }
    }
    kani::cover!(is_some, "frame released");
    kani::cover!(is_err && kind == 0 && !sub_fail, "CRC / size rejection reachable");
}

// ------------------------------------------------------------------ Decoder::seek (seek table lookup)
//
// contract: with a SEEKTABLE of two points (defined or placeholder, any values the block parser admits)
//   Ok(r): r == sample offset of the last defined point whose offset <= target (0 if none),
//          reader positioned at frames_start + that point's byte offset (frames_start if none),
//          current_sample == r <= target;  never panics (no overflow in frames_start + byte_offset)
use crate::metadata::{SeekPoint, SeekTable as MdSeekTable};
pub(crate) struct SeekRec {
    pub at: Option<u64>,
    pub fail: bool,
}
impl std::io::Seek for SeekRec {
    fn seek(&mut self, pos: std::io::SeekFrom) -> std::io::Result<u64> {
        if self.fail {
            return Err(std::io::Error::from(std::io::ErrorKind::Other));
        }
        match pos {
            std::io::SeekFrom::Start(p) => {
                self.at = Some(p);
                Ok(p)
            }
            _ => Err(std::io::Error::from(std::io::ErrorKind::InvalidInput)),
        }
    }
}
impl std::io::Read for SeekRec {
    fn read(&mut self, _buf: &mut [u8]) -> std::io::Result<usize> {
        Ok(0)
    }
}

fn any_point() -> SeekPoint {
    if kani::any() {
        SeekPoint::Placeholder
    } else {
        SeekPoint::Defined { sample_offset: kani::any(), byte_offset: kani::any(), frame_samples: kani::any() }
    }
}

#[kani::proof]
#[kani::unwind(5)]
pub(crate) fn k_decoder_seek_table2() {
    let p0 = any_point();
    let p1 = any_point();
    let pts = vec![p0.clone(), p1.clone()];
    let table = match crate::metadata::contiguous::Contiguous::try_from(pts) {
        Ok(t) => t,
        Err(_) => { kani::assume(false); unreachable!() }
    };
    let mut blocks = BlockList::new(mk_streaminfo(None));
    blocks.insert(MdSeekTable { points: table });
    let mut d = Decoder { reader: SeekRec { at: None, fail: kani::any() }, blocks, current_sample: kani::any(), buf: Frame::default() };
    let frames_start: u64 = kani::any();
    let target: u64 = kani::any();
    // a real file position and real seek points are far below 2^63
    kani::assume(frames_start < (1 << 62));
    let res = d.seek(frames_start, target);
    // reference: last defined point with offset <= target
    let mut want: (u64, u64) = (0, 0);
    let mut found = false;
    for p in [&p0, &p1] {
        if let SeekPoint::Defined { sample_offset, byte_offset, .. } = p {
            if *sample_offset <= target { want = (*sample_offset, *byte_offset); found = true; }
        }
    }
    match res {
        Ok(r) => {
            vk_assert!(!d.reader.fail, "seek error of the underlying stream swallowed");
            vk_assert!(r == want.0 && r <= target, "seek lands on the last seek point at or before the target");
            vk_assert!(d.current_sample == r, "decoder position equals the landing point");
            vk_assert!(d.reader.at == Some(frames_start.wrapping_add(if found { want.1 } else { 0 })), "stream positioned at frames_start + byte offset of the landing point");
        }
        Err(_) => {
            vk_assert!(d.reader.fail || (found && frames_start.checked_add(want.1).is_none()), "seek failed although the landing point is reachable");
        }
    }
}

// ------------------------------------------------------------------ FlacByteReader::seek (byte position arithmetic)
//
// contract (Decoder::seek replaced by a recorder that fails): the sample handed to the decoder is
//   floor(target_byte / bytes_per_pcm_frame) where target_byte is Start(n) | current byte + d | total bytes - d,
//   total bytes = total samples x channels x ceil(bps/8); End(+d), below zero => Err; Current(0) reports the position
static G_SEEK_ARG: AtomicUsize = AtomicUsize::new(usize::MAX);
static G_SEEK_CALLS: AtomicUsize = AtomicUsize::new(0);
fn stub_decoder_seek_rec<R: std::io::Seek>(_d: &mut Decoder<R>, _frames_start: u64, sample: u64) -> Result<u64, Error> {
    G_SEEK_ARG.store(sample as usize, Relaxed);
    G_SEEK_CALLS.fetch_add(1, Relaxed);
    Err(Error::InvalidSeek)
}

macro_rules! k_byte_reader_seek_arith {
    ($name:ident, $ch:expr, $bps:expr) => {
#[kani::proof]
#[kani::unwind(3)]
#[kani::stub(Decoder::seek, stub_decoder_seek_rec)]
pub(crate) fn $name() {
    let channels: u8 = $ch;
    let bps: u32 = $bps;
    let total: u64 = kani::any();
    kani::assume(total >= 1 && total < (1 << 36));
    let mut si = mk_streaminfo(NonZero::new(total));
    si.channels = NonZero::new(channels).unwrap();
    si.bits_per_sample = sbc::<32>(bps);
    let bpf: u64 = u64::from(bps.div_ceil(8)) * u64::from(channels);
    let current: u64 = kani::any();
    kani::assume(current <= total);
    let mut d = Decoder::new(SeekRec { at: None, fail: false }, BlockList::new(si));
    d.current_sample = current;
    let mut r: FlacByteReader<SeekRec, crate::byteorder::LittleEndian> = FlacByteReader {
        decoder: d,
        buf: VecDeque::default(),
        endianness: std::marker::PhantomData,
        frames_start: Some(0),
    };
    let cur_byte = current * bpf; // empty buffer: byte position == sample position
    let which: u8 = kani::any();
    let off: i64 = kani::any();
    let upos: u64 = kani::any();
    let pos = match which {
        0 => std::io::SeekFrom::Start(upos),
        1 => std::io::SeekFrom::Current(off),
        _ => std::io::SeekFrom::End(off),
    };
    let res = std::io::Seek::seek(&mut r, pos);
    let want: Option<u64> = match which {
        0 => Some(upos),
        1 => if off >= 0 { cur_byte.checked_add(off as u64) } else { cur_byte.checked_sub(off.unsigned_abs()) },
        _ => if off > 0 { None } else { (total * bpf).checked_sub(off.unsigned_abs()) },
    };
    if which == 1 && off == 0 {
        vk_assert!(matches!(res, Ok(p) if p == cur_byte), "SeekFrom::Current(0) reports the current byte position");
        vk_assert!(G_SEEK_CALLS.load(Relaxed) == 0, "reporting the position must not move the stream");
    } else {
        match want {
            None => {
                vk_assert!(res.is_err(), "seek before byte 0 / past the end must fail");
                vk_assert!(G_SEEK_CALLS.load(Relaxed) == 0, "an impossible target must not move the stream");
            }
            Some(b) => {
                vk_assert!(G_SEEK_CALLS.load(Relaxed) == 1, "decoder seek invoked once");
                vk_assert!(G_SEEK_ARG.load(Relaxed) as u64 == b / bpf, "decoder asked for the PCM frame that contains the target byte");
            }
        }
    }
}
    };
}
k_byte_reader_seek_arith!(k_byte_seek_arith_1x8, 1, 8);
k_byte_reader_seek_arith!(k_byte_seek_arith_2x16, 2, 16);
k_byte_reader_seek_arith!(k_byte_seek_arith_2x24, 2, 24);
k_byte_reader_seek_arith!(k_byte_seek_arith_8x32, 8, 32);
k_byte_reader_seek_arith!(k_byte_seek_arith_3x12, 3, 12);

// ------------------------------------------------------------------ FlacChannelReader (seek / fill_buf / consume)
//
// The decoder is replaced by its contract over an abstract stream: TOTAL samples per channel in
// blocks of BLK, the sample at position p of channel c being value_at(c, p) (all distinct), so that
// "which position is this" can be read off any delivered sample.
//   Decoder::read_frame: at position >= TOTAL -> Ok(None); else decodes the block at the position
//                        into `buf`, advances the position by BLK
//   Decoder::seek:       lands on an arbitrary block boundary <= target, leaves `buf` alone
use crate::audio::verif_k::{fill_abstract, value_at};
const A_TOTAL: u64 = 6;
const A_BLK: usize = 2;

fn stub_read_frame_abs<R: std::io::Read>(d: &mut Decoder<R>) -> Result<Option<&Frame>, Error> {
    if d.current_sample >= A_TOTAL {
        return Ok(None);
    }
    let ch = usize::from(d.blocks.streaminfo().channels.get());
    fill_abstract(&mut d.buf, ch, A_BLK, d.current_sample);
    d.current_sample += A_BLK as u64;
    Ok(Some(&d.buf))
}

fn stub_seek_abs<R: std::io::Seek>(d: &mut Decoder<R>, _frames_start: u64, sample: u64) -> Result<u64, Error> {
    let land: u64 = kani::any();
    kani::assume(land % (A_BLK as u64) == 0 && land <= sample && land <= A_TOTAL);
    d.current_sample = land;
    Ok(land)
}

/// well-formed reader state: nothing decoded yet (k = None) or block k decoded and `consumed` of it used
fn chan_reader(ch: u8, decoded: Option<u64>, consumed: usize) -> FlacChannelReader<SeekRec> {
    let mut si = mk_streaminfo(NonZero::new(A_TOTAL));
    si.channels = NonZero::new(ch).unwrap();
    let mut d = Decoder::new(SeekRec { at: None, fail: false }, BlockList::new(si));
    if let Some(k) = decoded {
        fill_abstract(&mut d.buf, ch as usize, A_BLK, k * A_BLK as u64);
        d.current_sample = (k + 1) * A_BLK as u64;
    }
    FlacChannelReader { decoder: d, consumed, frames_start: Some(0) }
}

macro_rules! k_chan_seek {
    ($name:ident, $ch:expr, $decoded:expr) => {
        #[kani::proof]
        #[kani::unwind(6)]
        #[kani::stub(Decoder::read_frame, stub_read_frame_abs)]
        #[kani::stub(Decoder::seek, stub_seek_abs)]
        pub(crate) fn $name() {
            let consumed: usize = kani::any();
            kani::assume(consumed <= A_BLK);
            if $decoded.is_none() { kani::assume(consumed == 0); }
            let mut r = chan_reader($ch, $decoded, consumed);
            let target: u64 = kani::any();
            kani::assume(target <= A_TOTAL + 1);
            let res = r.seek(target);
            if target > A_TOTAL {
                vk_assert!(res.is_err(), "seeking beyond the end of the stream must fail");
            } else {
                vk_assert!(res.is_ok(), "seeking inside the stream must succeed");
                let bufs = r.fill_buf().unwrap();
                vk_assert!(bufs.len() == $ch as usize, "one slice per channel");
                if target < A_TOTAL {
                    let mut c = 0;
                    while c < $ch as usize {
                        vk_assert!(!bufs[c].is_empty() && bufs[c][0] == value_at(c, target), "first sample after seek(t) is the sample at position t");
                        vk_assert!(bufs[c].len() == A_BLK - (target as usize % A_BLK), "rest of the block that contains t is delivered");
                        c += 1;
                    }
                } else {
                    vk_assert!(bufs[0].is_empty(), "seek to the very end leaves nothing to read");
                }
            }
        }
    };
}
k_chan_seek!(k_chan_seek_1ch_b0, 1u8, Some(0u64));
k_chan_seek!(k_chan_seek_2ch_b1, 2u8, Some(1u64));
k_chan_seek!(k_chan_seek_1ch_b2, 1u8, Some(2u64));

// contract (exactly once, in order): from a well-formed state at position p,
//   fill_buf() == stream[p .. end of p's block] (empty at the end), consume(k) moves to p + k,
//   and once the end was reported every further fill_buf() reports it again
macro_rules! k_chan_deliver {
    ($name:ident, $ch:expr, $decoded:expr) => {
        #[kani::proof]
        #[kani::unwind(6)]
        #[kani::stub(Decoder::read_frame, stub_read_frame_abs)]
        pub(crate) fn $name() {
            let consumed: usize = kani::any();
            kani::assume(consumed <= A_BLK);
            if $decoded.is_none() { kani::assume(consumed == 0); }
            let mut r = chan_reader($ch, $decoded, consumed);
            // position of the reader in the stream
            let p: u64 = match $decoded { Some(k) => k * A_BLK as u64 + consumed as u64, None => 0 };
            let k: usize = kani::any();
            {
                let bufs = r.fill_buf().unwrap();
                if p < A_TOTAL {
                    let want = A_BLK - (p as usize % A_BLK);
                    let mut c = 0;
                    while c < $ch as usize {
                        vk_assert!(bufs[c].len() == want, "fill_buf delivers the rest of the current block");
                        let mut i = 0;
                        while i < want {
                            vk_assert!(bufs[c][i] == value_at(c, p + i as u64), "samples are delivered in stream order, none skipped or repeated");
                            i += 1;
                        }
                        c += 1;
                    }
                    kani::assume(k <= want);
                } else {
                    vk_assert!(bufs[0].is_empty(), "nothing is delivered past the end of the stream");
                    kani::assume(k == 0);
                }
            }
            r.consume(k);
            let p2 = p + k as u64;
            let bufs = r.fill_buf().unwrap();
            if p2 < A_TOTAL {
                vk_assert!(!bufs[0].is_empty() && bufs[0][0] == value_at(0, p2), "after consume(k) delivery continues at p + k");
            } else {
                vk_assert!(bufs[0].is_empty(), "end of stream is reported again (no frame is delivered twice)");
            }
        }
    };
}
k_chan_deliver!(k_chan_deliver_1ch_fresh, 1u8, None::<u64>);
k_chan_deliver!(k_chan_deliver_2ch_b0, 2u8, Some(0u64));
k_chan_deliver!(k_chan_deliver_1ch_b1, 1u8, Some(1u64));
k_chan_deliver!(k_chan_deliver_1ch_b2, 1u8, Some(2u64));

// contract (C14 / C07): a decode error must not make the reader hand out stale samples afterwards:
// after fill_buf() failed, the next fill_buf() either fails again or delivers the block that follows the
// samples already consumed — never the previously buffered frame.
static G_RF_FAIL: AtomicUsize = AtomicUsize::new(0);
fn stub_read_frame_abs_failing<R: std::io::Read>(d: &mut Decoder<R>) -> Result<Option<&Frame>, Error> {
    if G_RF_FAIL.load(Relaxed) != 0 {
        G_RF_FAIL.store(0, Relaxed);
        return Err(Error::Crc16Mismatch);
    }
    stub_read_frame_abs(d)
}

#[kani::proof]
#[kani::unwind(6)]
#[kani::stub(Decoder::read_frame, stub_read_frame_abs_failing)]
pub(crate) fn k_chan_error_no_stale() {
    // block 0 decoded and fully consumed; the read of block 1 fails once
    let mut r = chan_reader(1, Some(0), A_BLK);
    G_RF_FAIL.store(1, Relaxed);
    let first_failed = r.fill_buf().is_err();
    vk_assert!(first_failed, "a decode error is reported");
    let bufs = r.fill_buf().unwrap();
    vk_assert!(!bufs[0].is_empty() && bufs[0][0] == value_at(0, A_BLK as u64), "after an error the reader continues with the next block, never with the stale frame");
}

// ------------------------------------------------------------------ FlacSampleReader::read on the buffered path (C07)
// contract: with k > 0 samples still buffered, read(out) returns min(out.len(), k) > 0 and hands out exactly the
// first samples of the buffer in order, whatever the decoder would say — in particular the end of the stream is
// never reported while samples remain buffered.  (The refill path goes through Frame::iter and is out of reach.)
fn stub_read_frame_none<R: std::io::Read>(_d: &mut Decoder<R>) -> Result<Option<&Frame>, Error> {
    Ok(None)
}
#[kani::proof]
#[kani::unwind(6)]
#[kani::stub(Decoder::read_frame, stub_read_frame_none)]
pub(crate) fn k_sample_reader_buffered_read() {
    let d = Decoder::new(SeekRec { at: None, fail: false }, BlockList::new(mk_streaminfo(NonZero::new(6))));
    let vals: [i32; 3] = kani::any();
    let mut buf: VecDeque<i32> = VecDeque::new();
    buf.push_back(vals[0]);
    buf.push_back(vals[1]);
    buf.push_back(vals[2]);
    let mut r = FlacSampleReader { decoder: d, buf, frames_start: None };
    let mut out = [0i32; 4];
    let want: usize = kani::any();
    kani::assume(want >= 1 && want <= 4);
    let n = r.read(&mut out[..want]).unwrap();
    vk_assert!(n == want.min(3), "read() must deliver buffered samples before reporting anything else");
    let mut i = 0;
    while i < 3 {
        if i < n { vk_assert!(out[i] == vals[i], "buffered samples are delivered in order"); }
        i += 1;
    }
    vk_assert!(r.buf.len() == 3 - n, "exactly the delivered samples leave the buffer");
}

// ------------------------------------------------------------------ FlacStreamReader::read: sync scan (C16)
//
// contract (header parser and frame-body decoder replaced by recorders): scanning a buffered source for frames
//   * tries a header exactly at every 0xFF that is immediately followed by a byte whose upper 7 bits are 1111100,
//     in stream order, with the reader positioned right after that byte pair's first byte — no candidate is skipped,
//     whatever garbage (including stray 0xFF bytes) precedes it and wherever the source splits its buffer;
//   * returns an error, not a frame, when the source ends.
static G_SYNC_SEEN: [AtomicUsize; 4] = [const { AtomicUsize::new(0) }; 4];
static G_SYNC_N: AtomicUsize = AtomicUsize::new(0);

fn stub_read_subset_rec<R: std::io::Read>(reader: &mut R) -> Result<FrameHeader, Error> {
    // consume the two sync bytes and the marker byte that follows them, record the marker, reject the header
    let mut b = [0u8; 3];
    let _ = reader.read_exact(&mut b);
    let n = G_SYNC_N.load(Relaxed);
    if n < 4 {
        G_SYNC_SEEN[n].store(((b[0] as usize) << 16) | ((b[1] as usize) << 8) | b[2] as usize, Relaxed);
    }
    G_SYNC_N.store(n + 1, Relaxed);
    Err(Error::Crc8Mismatch)
}

pub(crate) struct Chunked<const N: usize> {
    pub data: [u8; N],
    pub pos: usize,
    pub chunk: usize,
}
impl<const N: usize> std::io::Read for Chunked<N> {
    fn read(&mut self, buf: &mut [u8]) -> std::io::Result<usize> {
        if buf.is_empty() || self.pos >= N { return Ok(0); }
        buf[0] = self.data[self.pos];
        self.pos += 1;
        Ok(1)
    }
}
impl<const N: usize> std::io::BufRead for Chunked<N> {
    fn fill_buf(&mut self) -> std::io::Result<&[u8]> {
        let end = if self.pos + self.chunk < N { self.pos + self.chunk } else { N };
        Ok(&self.data[self.pos..end])
    }
    fn consume(&mut self, amt: usize) {
        self.pos += amt;
    }
}

macro_rules! k_stream_reader_sync_scan {
    ($name:ident, [$($b:expr),*], $chunk:expr, [$($want:expr),*], $unw:expr) => {
        #[kani::proof]
        #[kani::unwind($unw)]
        #[kani::stub(crate::stream::FrameHeader::read_subset, stub_read_subset_rec)]
        pub(crate) fn $name() {
            // data and refill size are concrete per instance: std's memchr over symbolic bytes runs CBMC out of memory
            let data = [$($b),*];
            let chunk: usize = $chunk;
            let src = Chunked { data, pos: 0, chunk };
            let mut r = FlacStreamReader::new(src);
            let res = r.read().map(|_| ());
            vk_assert!(res.is_err(), "no frame may be fabricated from a source that holds no valid header");
            let want: &[usize] = &[$($want),*];
            vk_assert!(G_SYNC_N.load(Relaxed) == want.len(), "a header is tried at every sync position and nowhere else");
            let mut i = 0;
            while i < want.len() {
                vk_assert!(G_SYNC_SEEN[i].load(Relaxed) == want[i], "sync candidates are tried in stream order, none skipped");
                i += 1;
            }
        }
    };
}
// garbage, a stray 0xFF, then a real sync (FF F8) followed by marker 0x11 — whole buffer at once, and one byte per refill
k_stream_reader_sync_scan!(k_stream_sync_after_stray_ff_c6, [0x00, 0xFF, 0xFF, 0xF8, 0x11, 0x00], 6, [0xFFF811], 10);
k_stream_reader_sync_scan!(k_stream_sync_after_stray_ff_c1, [0x00, 0xFF, 0xFF, 0xF8, 0x11, 0x00], 1, [0xFFF811], 10);
// two candidates: FF F9 22 and FF F8 33, with garbage between; refills split the second sync code
k_stream_reader_sync_scan!(k_stream_sync_two_candidates_c5, [0xFF, 0xF9, 0x22, 0x00, 0xFF, 0xF8, 0x33], 5, [0xFFF922, 0xFFF833], 10);
// no sync at all: FF followed by a non-sync byte, garbage
k_stream_reader_sync_scan!(k_stream_sync_none_c2, [0x00, 0xFF, 0x00, 0x00], 2, [], 8);

// ------------------------------------------------------------------ FlacByteReader: refill, delivery and skip-forward after seeking (C06 / C07)
//
// Decoder and byte serialisation are replaced by their contracts over the abstract stream (mono, 2 bytes per
// sample, blocks of 2 samples, 3 blocks = 12 bytes; the byte at stream position q has the value q + 1):
//   Decoder::read_frame / Decoder::seek as for the channel reader; Frame::to_buf writes the block's bytes.
// contract seek(Start(t)): t <= 12 => Ok(t) and the next byte read is the byte at position t (none at t == 12);
//                          t > 12 => Err; never stale or misplaced data, from every well-formed reader state
// contract read(n): delivers the next min(n, bytes left in the block) bytes of the stream, in order, exactly once
fn stub_to_buf_abs<E: crate::byteorder::Endianness>(f: &Frame, buf: &mut [u8]) {
    let s = frame_samples(f);
    let mut i = 0;
    while i < s.len() {
        let p = (s[i] / 8) as usize; // sample position (see audio::verif_k::value_at)
        if 2 * i + 1 < buf.len() {
            buf[2 * i] = (2 * p + 1) as u8;
            buf[2 * i + 1] = (2 * p + 2) as u8;
        }
        i += 1;
    }
}

/// well-formed byte reader: block k decoded and `left` of its 4 bytes still buffered (or nothing decoded yet)
fn byte_reader(decoded: Option<u64>, left: usize) -> FlacByteReader<SeekRec, crate::byteorder::LittleEndian> {
    let mut si = mk_streaminfo(NonZero::new(A_TOTAL));
    si.channels = NonZero::new(1).unwrap();
    let mut d = Decoder::new(SeekRec { at: None, fail: false }, BlockList::new(si));
    let mut buf: VecDeque<u8> = VecDeque::new();
    if let Some(k) = decoded {
        fill_abstract(&mut d.buf, 1, A_BLK, k * A_BLK as u64);
        d.current_sample = (k + 1) * A_BLK as u64;
        let base = (k * 4) as usize;
        let mut j = 4 - left;
        while j < 4 { buf.push_back((base + j + 1) as u8); j += 1; }
    }
    FlacByteReader { decoder: d, buf, endianness: std::marker::PhantomData, frames_start: Some(0) }
}

macro_rules! k_byte_reader_seek_land {
    ($name:ident, $decoded:expr, $left:expr) => {
        #[kani::proof]
        #[kani::unwind(8)]
        #[kani::stub(Decoder::read_frame, stub_read_frame_abs)]
        #[kani::stub(Decoder::seek, stub_seek_abs)]
        #[kani::stub(crate::audio::Frame::to_buf, stub_to_buf_abs)]
        pub(crate) fn $name() {
            use std::io::{Read, Seek, SeekFrom};
            let mut r = byte_reader($decoded, $left);
            let t: u64 = kani::any();
            kani::assume(t <= 14);
            let res = r.seek(SeekFrom::Start(t));
            let ok = res.is_ok();
            let pos = res.unwrap_or(u64::MAX);
            if t > 12 {
                vk_assert!(!ok, "seeking beyond the end of the stream must fail");
            } else {
                vk_assert!(ok && pos == t, "a seek inside the stream succeeds and reports the requested byte position");
                let mut one = [0u8; 1];
                let n = r.read(&mut one).unwrap();
                if t < 12 {
                    vk_assert!(n == 1 && one[0] as u64 == t + 1, "the first byte read after seek(t) is the byte at position t");
                } else {
                    vk_assert!(n == 0, "seeking to the very end leaves nothing to read");
                }
            }
        }
    };
}

macro_rules! k_byte_reader_deliver {
    ($name:ident, $decoded:expr, $left:expr) => {
        #[kani::proof]
        #[kani::unwind(8)]
        #[kani::stub(Decoder::read_frame, stub_read_frame_abs)]
        #[kani::stub(crate::audio::Frame::to_buf, stub_to_buf_abs)]
        pub(crate) fn $name() {
            use std::io::Read;
            let mut r = byte_reader($decoded, $left);
            let q: usize = match $decoded { Some(k) => (k as usize) * 4 + (4 - $left), None => 0 };
            let want: usize = kani::any();
            kani::assume(want >= 1 && want <= 5);
            let mut out = [0u8; 5];
            let n = r.read(&mut out[..want]).unwrap();
            if q >= 12 {
                vk_assert!(n == 0, "nothing is delivered past the end of the stream");
            } else {
                let in_block = 4 - q % 4;
                vk_assert!(n == want.min(in_block), "read delivers the rest of the current block, at most what was asked for");
                let mut i = 0;
                while i < 5 {
                    if i < n { vk_assert!(out[i] as usize == q + i + 1, "bytes are delivered in stream order, none skipped or repeated"); }
                    i += 1;
                }
            }
            let mut one = [0u8; 1];
            let m = r.read(&mut one).unwrap();
            if q + n < 12 { vk_assert!(m == 1 && one[0] as usize == q + n + 1, "the next read continues right after the last delivered byte"); }
            else { vk_assert!(m == 0, "end of stream is reported once everything was delivered"); }
        }
    };
}
// measured: the seek instances and the instances that refill a VecDeque whose head has moved run CBMC out of memory;
// kept are the states with an empty or final buffer
k_byte_reader_deliver!(k_byte_reader_deliver_b1_left0, Some(1u64), 0);
k_byte_reader_deliver!(k_byte_reader_deliver_b2_left2, Some(2u64), 2);
k_byte_reader_deliver!(k_byte_reader_deliver_b2_left0, Some(2u64), 0);

// ------------------------------------------------------------------ read_subframes: the frame buffer is re-shaped for every frame (C16 / C03)
// contract: decoding a frame into a buffer that still holds a previous frame of a different shape (here 2 channels x 2
// samples, then 1 channel x 4 samples: same number of samples) yields exactly the second frame: shape from its header,
// samples from its subframes — nothing of the previous frame's layout survives.
#[kani::proof]
#[kani::unwind(7)]
pub(crate) fn k_frames_reuse_buffer_shape() {
    let mut buf = Frame::default();
    // first frame: stereo, block of 2
    let a = [any_i64_within(16), any_i64_within(16)];
    let b = [any_i64_within(16), any_i64_within(16)];
    let mut t1: Tape<16> = Tape::new();
    gen_verbatim(&mut t1, 16, &a);
    gen_verbatim(&mut t1, 16, &b);
    gen_frame_tail(&mut t1, 2 * 8 + 2 * 32);
    let h1 = hdr(16, 2, ChannelAssignment::Independent(Independent::Stereo));
    vk_assert!(read_subframes(&mut t1, &h1, &mut buf).is_ok(), "first frame decodes");
    vk_assert!(frame_shape(&buf) == (2, 2, 16), "first frame shape");
    // second frame: mono, block of 4, different depth
    let c = [any_i64_within(12), any_i64_within(12), any_i64_within(12), any_i64_within(12)];
    let mut t2: Tape<16> = Tape::new();
    gen_verbatim(&mut t2, 12, &c);
    gen_frame_tail(&mut t2, 8 + 4 * 12);
    let h2 = hdr(12, 4, ChannelAssignment::Independent(Independent::Mono));
    vk_assert!(read_subframes(&mut t2, &h2, &mut buf).is_ok(), "second frame decodes");
    vk_assert!(frame_shape(&buf) == (1, 4, 12), "the buffer takes the shape of the frame just decoded");
    let s = frame_samples(&buf);
    vk_assert!(s.len() == 4, "one channel of four samples");
    let mut i = 0;
    while i < 4 { vk_assert!(s[i] as i64 == c[i], "samples of the second frame"); i += 1; }
    let mut n = 0;
    for ch in buf.channels() { vk_assert!(ch.len() == 4, "channel slices follow the new block size"); n += 1; }
    vk_assert!(n == 1, "exactly one channel");
}

// ---- read_lpc_subframe: reserved precision code and negative shift are rejected (RFC 9639 9.2.6) ----
macro_rules! k_lpc_reject {
    ($name:ident, $order:expr) => {
        #[kani::proof]
        #[kani::unwind(6)]
        pub(crate) fn $name() {
            let mut tape: Tape<10> = Tape::new();
            let mut i = 0;
            while i < $order {
                let wu: i16 = kani::any();
                tape.preload(K_S, 16, wu as i64 as u64);
                i += 1;
            }
            let p: u8 = kani::any();
            kani::assume(p < 16);
            tape.preload(K_U, 4, p as u64);
            let shift: i8 = kani::any();
            kani::assume(shift >= -16 && shift <= 15);
            tape.preload(K_S, 5, shift as i64 as u64);
            tape.record = false;
            tape.failed = true;
            let mut ch = [0i32; 6];
            let res = read_lpc_subframe::<32, _, i32>(&mut tape, SignedBitCount::new::<16>(), NonZero::new($order as u8).unwrap(), &mut ch);
            let badp = matches!(res, Err(Error::InvalidQlpPrecision));
            let neg = matches!(res, Err(Error::NegativeLpcShift));
            let io = matches!(res, Err(Error::Io(_)));
            std::mem::forget(res);
            vk_undecided!(!tape.shape_mismatch, "read_lpc_subframe read other fields than RFC 9639 9.2.6 lists before the coefficients");
            vk_assert!(badp == (p == 15), "read_lpc_subframe rejects exactly the reserved QLP precision code 1111");
            vk_assert!(neg == (p != 15 && shift < 0), "read_lpc_subframe rejects a negative LPC shift (and only that) with NegativeLpcShift");
            vk_assert!(badp || neg || io, "a legal precision and shift let the decoder go on to the coefficients (missing here): never Ok");
        }
    };
}
k_lpc_reject!(k_lpc_reject_o1, 1);
k_lpc_reject!(k_lpc_reject_o3, 3);
