// harnesses for crate::decode (child module: sees private items)
#![allow(dead_code, unused_imports)]
use super::*;
