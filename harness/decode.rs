// harnesses for crate::decode (child module: sees private items)
#![allow(dead_code, unused_imports)]
use super::*;
use crate::verif_k::bits::BitBuf;
use crate::verif_k::spec;
use crate::verif_k::specenc::{self, PKind};
use crate::verif_k::tape::{Tape, K_S, K_U, K_UN1};
use crate::verif_k::{vk_assert, vk_undecided};
use PKind::{Escape, Rice, Zero};

fn any_i64_within(bits: u32) -> i64 {
    let v: i64 = kani::any();
    kani::assume(spec::fits(v, bits));
    v
}

// ------------------------------------------------------------------ read_residuals (valid streams)
//
// contract (RFC 9639 §9.2.7):
//   requires  the stream is the RFC coding (method, partition order, per-partition kind and
//             parameter) of residuals r[0..n] that are valid 32-bit residuals
//   ensures   Ok(()), residuals == r, exactly the coding's fields consumed, field grammar as RFC
macro_rules! k_read_residuals_valid {
    ($name:ident, $t:ty, $n:expr, $order:expr, $method:expr, $po:expr, [$($kind:expr),*], $unw:expr) => {
        #[kani::proof]
        #[kani::unwind($unw)]
        pub(crate) fn $name() {
            let kinds = [$($kind),*];
            let mut params = [0u32; 8];
            let mut i = 0;
            while i < kinds.len() { params[i] = kani::any(); kani::assume(params[i] <= 31); i += 1; }
            let mut r = [0i64; $n];
            let mut i = 0;
            while i < $n { r[i] = any_i64_within(32); i += 1; }
            kani::assume(specenc::residuals_valid($method, $po, $order, &r, &kinds, &params));
            let mut tape: Tape<24> = Tape::new();
            specenc::gen_residuals(&mut tape, $method, $po, $order, &r, &kinds, &params);
            let mut out: [$t; $n] = kani::any();
            let res = read_residuals::<_, $t>(&mut tape, $order, &mut out);
            vk_assert!(!tape.shape_mismatch, "read_residuals: field grammar differs from RFC 9639 9.2.7");
            vk_assert!(res.is_ok(), "read_residuals rejected a valid residual coding");
            let mut i = 0;
            while i < $n {
                vk_assert!(i64::from(out[i]) == r[i], "read_residuals: decoded residual differs from the coded value");
                i += 1;
            }
            vk_assert!(tape.consumed_all(), "read_residuals did not consume exactly the residual coding");
            kani::cover!(res.is_ok(), "valid coding decoded");
        }
    };
}
k_read_residuals_valid!(k_res_valid_i32_n4_o0_m0_p1_RR, i32, 4, 0, 0, 1, [Rice, Rice], 6);
k_read_residuals_valid!(k_res_valid_i32_n4_o0_m1_p2_RERZ, i32, 4, 0, 1, 2, [Rice, Escape, Rice, Zero], 6);
k_read_residuals_valid!(k_res_valid_i32_n3_o1_m0_p1_ER, i32, 3, 1, 0, 1, [Escape, Rice], 6);
k_read_residuals_valid!(k_res_valid_i32_n3_o2_m1_p0_R, i32, 3, 2, 1, 0, [Rice], 6);
k_read_residuals_valid!(k_res_valid_i64_n3_o1_m1_p1_RE, i64, 3, 1, 1, 1, [Rice, Escape], 6);
k_read_residuals_valid!(k_res_valid_i32_n2_o0_m0_p1_ZR, i32, 2, 0, 0, 1, [Zero, Rice], 6);
k_read_residuals_valid!(k_res_valid_i32_n1_o0_m1_p0_E, i32, 1, 0, 1, 0, [Escape], 6);

// ------------------------------------------------------------------ read_residuals (all inputs)
//
// contract: for every field sequence and every read fault
//   never panics;  a read fault is never swallowed (Err);
//   coding method 2/3 or a partition order that RFC 9639 §9.2.7 forbids for this block => Err
macro_rules! k_read_residuals_total {
    ($name:ident, $t:ty, $n:expr, $unw:expr) => {
        #[kani::proof]
        #[kani::unwind($unw)]
        pub(crate) fn $name() {
            let mut tape: Tape<4> = Tape::faulty();
            let method: u64 = kani::any();
            let po: u64 = kani::any();
            kani::assume(method < 4 && po < 16);
            tape.preload(K_U, 2, method);
            tape.preload(K_U, 4, po);
            tape.record = false;
            let order: usize = kani::any();
            kani::assume(order <= 3);
            let mut out: [$t; $n] = kani::any();
            let res = read_residuals::<_, $t>(&mut tape, order, &mut out);
            if tape.failed {
                vk_assert!(res.is_err(), "read fault / EOF swallowed by read_residuals");
            }
            if method > 1 {
                vk_assert!(res.is_err(), "reserved residual coding method accepted");
            }
            if !spec::part_ok(($n + order) as u32, order as u32, po as u32) {
                vk_assert!(res.is_err(), "partition order forbidden by RFC 9639 9.2.7 accepted");
            }
            kani::cover!(res.is_ok(), "some input accepted");
            kani::cover!(res.is_err() && !tape.failed, "some input rejected without a read fault");
        }
    };
}
k_read_residuals_total!(k_res_total_i32_n1, i32, 1, 3);
k_read_residuals_total!(k_res_total_i32_n2, i32, 2, 4);
k_read_residuals_total!(k_res_total_i32_n3, i32, 3, 5);
k_read_residuals_total!(k_res_total_i64_n2, i64, 2, 4);

// ------------------------------------------------------------------ predict
//
// contract (RFC 9639 §9.2.5/§9.2.6): channel = warm_up ++ residuals where residuals[i] is
// x[order+i] - ((Σ x[order+i-1-j]·c[j]) >> shift)   ==>   after predict(), channel == x.
// requires: x fits `bps` bits, residuals are valid 32-bit residuals, shift <= 31.
// Coefficients are *concrete* per instance: with symbolic coefficients the obligation asks a SAT
// solver to match two 64-bit multiplier circuits and does not finish (measured: > 15 min for
// n = 3, order = 1, with CaDiCaL, kissat, z3 and cvc5).  The fixed-predictor instances cover the
// complete coefficient space of FIXED subframes; for LPC the coefficient-generic statement is the
// Verus lemma L-LPC and these instances are its bounded link to the code.
macro_rules! k_predict_valid {
    ($name:ident, $t:ty, $bps:expr, $n:expr, [$($c:expr),*], $unw:expr) => {
        #[kani::proof]
        #[kani::unwind($unw)]
        pub(crate) fn $name() {
            let c: [i64; [$($c),*].len()] = [$($c),*];
            let order = c.len();
            let mut x = [0i64; $n];
            let mut i = 0;
            while i < $n { x[i] = any_i64_within($bps); i += 1; }
            let shift: u32 = kani::any();
            kani::assume(shift <= 31);
            let mut ch: [$t; $n] = [0; $n];
            let mut i = 0;
            while i < $n {
                let v = if i < order { x[i] } else { specenc::spec_residual(&x, i, order, &c, shift) };
                if i >= order {
                    kani::assume(v >= i32::MIN as i64 + 1 && v <= i32::MAX as i64); // valid residual
                }
                ch[i] = v as $t;
                i += 1;
            }
            predict::<$t>(&c, shift, &mut ch);
            let mut i = 0;
            while i < $n {
                vk_assert!(i64::from(ch[i]) == x[i], "predict does not restore the samples the residuals were computed from");
                i += 1;
            }
        }
    };
}
k_predict_valid!(k_predict_valid_i32_fixed1, i32, 32, 4, [1], 6);
k_predict_valid!(k_predict_valid_i32_fixed2, i32, 32, 4, [2, -1], 6);
k_predict_valid!(k_predict_valid_i32_fixed3, i32, 32, 5, [3, -3, 1], 7);
k_predict_valid!(k_predict_valid_i32_fixed4, i32, 32, 6, [4, -6, 4, -1], 8);
k_predict_valid!(k_predict_valid_i64_fixed2, i64, 33, 4, [2, -1], 6);
k_predict_valid!(k_predict_valid_i32_lpc_a, i32, 32, 4, [16383, -16384], 6);
k_predict_valid!(k_predict_valid_i32_lpc_b, i32, 24, 5, [1042, -399, -75], 7);
k_predict_valid!(k_predict_valid_i64_lpc_a, i64, 33, 4, [-16384, 16383], 6);

// contract: predict never panics, whatever the (malformed) stream supplied — all values
macro_rules! k_predict_total {
    ($name:ident, $t:ty, $n:expr, $order:expr, $unw:expr) => {
        #[kani::proof]
        #[kani::unwind($unw)]
        pub(crate) fn $name() {
            let mut c = [0i64; $order];
            let mut j = 0;
            while j < $order { c[j] = any_i64_within(15); j += 1; }
            let shift: u32 = kani::any();
            kani::assume(shift <= 31);
            let mut ch: [$t; $n] = kani::any();
            predict::<$t>(&c, shift, &mut ch);
        }
    };
}
k_predict_total!(k_predict_total_i32_n4_o2, i32, 4, 2, 6);
k_predict_total!(k_predict_total_i64_n4_o2, i64, 4, 2, 6);
k_predict_total!(k_predict_total_i32_n3_o0, i32, 3, 0, 5);
