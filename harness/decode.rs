// harnesses for crate::decode (child module: sees private items)
#![allow(dead_code, unused_imports)]
use super::*;
use crate::verif_k::bits::BitBuf;
use crate::verif_k::spec;
use crate::verif_k::specenc::{self, PKind};
use crate::verif_k::tape::{Tape, K_S, K_U, K_UN1};
use crate::verif_k::{vk_assert, vk_undecided};
use PKind::{Escape, Rice, Zero};

fn any_i64_within(bits: u32) -> i64 {
    let v: i64 = kani::any();
    kani::assume(spec::fits(v, bits));
    v
}

// ------------------------------------------------------------------ read_residuals (valid streams)
//
// contract (RFC 9639 §9.2.7):
//   requires  the stream is the RFC coding (method, partition order, per-partition kind and
//             parameter) of residuals r[0..n] that are valid 32-bit residuals
//   ensures   Ok(()), residuals == r, exactly the coding's fields consumed, field grammar as RFC
macro_rules! k_read_residuals_valid {
    ($name:ident, $t:ty, $n:expr, $order:expr, $method:expr, $po:expr, [$($kind:expr),*], $unw:expr) => {
        #[kani::proof]
        #[kani::unwind($unw)]
        pub(crate) fn $name() {
            let kinds = [$($kind),*];
            let mut params = [0u32; 8];
            let mut i = 0;
            while i < kinds.len() { params[i] = kani::any(); kani::assume(params[i] <= 31); i += 1; }
            let mut r = [0i64; $n];
            let mut i = 0;
            while i < $n { r[i] = any_i64_within(32); i += 1; }
            kani::assume(specenc::residuals_valid($method, $po, $order, &r, &kinds, &params));
            let mut tape: Tape<24> = Tape::new();
            specenc::gen_residuals(&mut tape, $method, $po, $order, &r, &kinds, &params);
            let mut out: [$t; $n] = kani::any();
            let res = read_residuals::<_, $t>(&mut tape, $order, &mut out);
            vk_assert!(!tape.shape_mismatch, "read_residuals: field grammar differs from RFC 9639 9.2.7");
            vk_assert!(res.is_ok(), "read_residuals rejected a valid residual coding");
            let mut i = 0;
            while i < $n {
                vk_assert!(i64::from(out[i]) == r[i], "read_residuals: decoded residual differs from the coded value");
                i += 1;
            }
            vk_assert!(tape.consumed_all(), "read_residuals did not consume exactly the residual coding");
            kani::cover!(res.is_ok(), "valid coding decoded");
        }
    };
}
k_read_residuals_valid!(k_res_valid_i32_n4_o0_m0_p1_RR, i32, 4, 0, 0, 1, [Rice, Rice], 6);
k_read_residuals_valid!(k_res_valid_i32_n4_o0_m1_p2_RERZ, i32, 4, 0, 1, 2, [Rice, Escape, Rice, Zero], 6);
k_read_residuals_valid!(k_res_valid_i32_n3_o1_m0_p1_ER, i32, 3, 1, 0, 1, [Escape, Rice], 6);
k_read_residuals_valid!(k_res_valid_i32_n3_o2_m1_p0_R, i32, 3, 2, 1, 0, [Rice], 6);
