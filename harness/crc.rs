// harnesses for crate::crc (child module: sees private items)
#![allow(dead_code, unused_imports)]
use super::*;
use crate::verif_k::spec;
use crate::verif_k::vk_assert;

/// contract: Crc8::update(s, b) == spec::crc8_step(s, b) for all (s, b)
#[kani::proof]
fn k_crc8_update_eq_spec() {
    let s: u8 = kani::any();
    let b: u8 = kani::any();
    let r = Crc8(s).update(b);
    vk_assert!(r.0 == spec::crc8_step(s, b), "Crc8::update equals the RFC polynomial step");
    vk_assert!(Crc8(s).valid() == (s == 0), "Crc8::valid iff state is zero");
    vk_assert!(Crc8::default().0 == 0, "Crc8 starts at zero");
}

/// contract: Crc16::update(s, b) == spec::crc16_step(s, b) for all (s, b)
#[kani::proof]
fn k_crc16_update_eq_spec() {
    let s: u16 = kani::any();
    let b: u8 = kani::any();
    let r = Crc16(s).update(b);
    vk_assert!(r.0 == spec::crc16_step(s, b), "Crc16::update equals the RFC polynomial step");
    vk_assert!(Crc16(s).valid() == (s == 0), "Crc16::valid iff state is zero");
    vk_assert!(Crc16::default().0 == 0, "Crc16 starts at zero");
}
