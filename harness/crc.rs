// harnesses for crate::crc (child module: sees private items)
#![allow(dead_code, unused_imports)]
use super::*;
use crate::verif_k::spec;
use crate::verif_k::vk_assert;

/// contract: Crc8::update(s, b) == spec::crc8_step(s, b) for all (s, b)
#[kani::proof]
fn k_crc8_update_eq_spec() {
    let s: u8 = kani::any();
    let b: u8 = kani::any();
    let r = Crc8(s).update(b);
    vk_assert!(r.0 == spec::crc8_step(s, b), "Crc8::update equals the RFC polynomial step");
    vk_assert!(Crc8(s).valid() == (s == 0), "Crc8::valid iff state is zero");
    vk_assert!(Crc8::default().0 == 0, "Crc8 starts at zero");
}

/// contract: Crc16::update(s, b) == spec::crc16_step(s, b) for all (s, b)
#[kani::proof]
fn k_crc16_update_eq_spec() {
    let s: u16 = kani::any();
    let b: u8 = kani::any();
    let r = Crc16(s).update(b);
    vk_assert!(r.0 == spec::crc16_step(s, b), "Crc16::update equals the RFC polynomial step");
    vk_assert!(Crc16(s).valid() == (s == 0), "Crc16::valid iff state is zero");
    vk_assert!(Crc16::default().0 == 0, "Crc16 starts at zero");
}

// contract: CrcReader::read / CrcWriter::write fold `update` over exactly the bytes the inner stream returned / accepted
pub(crate) struct Chunk {
    pub data: [u8; 3],
    pub give: usize,
    pub fail: bool,
}
impl std::io::Read for Chunk {
    fn read(&mut self, buf: &mut [u8]) -> std::io::Result<usize> {
        if self.fail { return Err(std::io::Error::from(std::io::ErrorKind::Other)); }
        let k = self.give.min(buf.len()).min(3);
        buf[..k].copy_from_slice(&self.data[..k]);
        Ok(k)
    }
}
impl std::io::Write for Chunk {
    fn write(&mut self, buf: &[u8]) -> std::io::Result<usize> {
        if self.fail { return Err(std::io::Error::from(std::io::ErrorKind::Other)); }
        Ok(self.give.min(buf.len()))
    }
    fn flush(&mut self) -> std::io::Result<()> { Ok(()) }
}

#[kani::proof]
#[kani::unwind(5)]
pub(crate) fn k_crc_reader_writer_fold() {
    use std::io::{Read, Write};
    let data: [u8; 3] = kani::any();
    let give: usize = kani::any();
    kani::assume(give <= 4);
    let fail: bool = kani::any();
    let mut r: CrcReader<Chunk, Crc16> = CrcReader::new(Chunk { data, give, fail });
    let mut buf = [0u8; 3];
    let res = r.read(&mut buf);
    let sum: u16 = r.into_checksum().into();
    match res {
        Ok(k) => {
            let mut want = 0u16;
            let mut i = 0;
            while i < 3 { if i < k { want = spec::crc16_step(want, data[i]); } i += 1; }
            vk_assert!(sum == want, "CrcReader checksums exactly the bytes the inner reader returned");
        }
        Err(_) => vk_assert!(fail && sum == 0, "a failed read leaves the checksum untouched"),
    }
    let mut w: CrcWriter<Chunk, Crc8> = CrcWriter::new(Chunk { data: [0; 3], give, fail });
    let res = w.write(&data);
    let sum: u8 = w.into_checksum().into();
    match res {
        Ok(k) => {
            let mut want = 0u8;
            let mut i = 0;
            while i < 3 { if i < k { want = spec::crc8_step(want, data[i]); } i += 1; }
            vk_assert!(sum == want, "CrcWriter checksums exactly the bytes the inner writer accepted");
        }
        Err(_) => vk_assert!(fail && sum == 0, "a failed write leaves the checksum untouched"),
    }
}
