// Conformance of the *assumed* dependency contract (harness/bits.rs) to the real `bitstream-io` code.
//
// Every other obligation runs the crate's parsers and builders against `BitBuf` / `Tape`, i.e. against what
// bits.rs says `bitstream_io::{BitRead, BitWrite}` do.  The harnesses below run one and the same generic
// script -- a sequence of exactly the field kinds flac-codec uses -- once on the real
// `bitstream_io::BitReader<_, BigEndian>` / `BitWriter<_, BigEndian>` over a byte stream and once on the model,
// for all stream contents, all truncation points (byte granular) and all written values, and compare results,
// error/success and the bytes produced.  Bounded: the scripts are short (the real reader's bit queue makes
// long symbolic scripts explode); each covers the field kinds of one part of the format.
use crate::verif_k::bits::{BitBuf, ByteSink, ByteSrc};
use crate::verif_k::{vk_assert, vk_undecided};
use bitstream_io::{BigEndian, BitCount, BitRead, BitReader, BitWrite, BitWriter, LittleEndian, SignedBitCount};
use std::io;

fn load<const N: usize>(b: &BitBuf<1>) -> ByteSrc<N> {
    let mut data = [0u8; N];
    let mut i = 0;
    while i < N {
        data[i] = b.byte(i as u32);
        i += 1;
    }
    ByteSrc { data, len: (b.len / 8) as usize, pos: 0, failed: false }
}

fn model_bytes() -> BitBuf<1> {
    let mut b = BitBuf::<1>::any();
    kani::assume(b.len % 8 == 0);
    b.rd_err_eof = true;
    b
}

// ---- reader scripts ---------------------------------------------------------------------------------------

// frame-header-like: fixed-width unsigned fields, single bits, a whole byte
fn rd_header<R: BitRead + ?Sized>(r: &mut R) -> io::Result<(u16, bool, bool, u8, u8, u8, u8, bool, u8, u16)> {
    Ok((r.read::<14, u16>()?, r.read_bit()?, r.read_bit()?, r.read::<4, u8>()?, r.read::<4, u8>()?, r.read::<4, u8>()?, r.read::<3, u8>()?, r.read_bit()?, r.read_to::<u8>()?, r.read::<16, u16>()?))
}

#[kani::proof]
#[kani::unwind(10)]
pub(crate) fn k_dep_read_header_fields() {
    let mut m = model_bytes();
    let src = load::<8>(&m);
    let mut real = BitReader::endian(src, BigEndian);
    let a = rd_header(&mut real);
    let b = rd_header(&mut m);
    let same = match (&a, &b) {
        (Ok(x), Ok(y)) => x == y,
        (Err(_), Err(_)) => true,
        _ => false,
    };
    std::mem::forget((a, b));
    vk_assert!(same, "bitstream-io BitReader agrees with the dependency contract on fixed-width fields, bits and bytes (values and end-of-stream)");
}

// residual-like: 2+4 bit codes, a unary run, a remainder of run-time width, a signed field of run-time width
fn rd_residual<R: BitRead + ?Sized>(r: &mut R, k: u32, w: u32) -> io::Result<(u8, u32, u32, u32, i32)> {
    let method = r.read::<2, u8>()?;
    let order = r.read::<4, u32>()?;
    let msb = r.read_unary::<1>()?;
    let lsb = r.read_counted::<0b1111, u32>(BitCount::try_from(k).map_err(|_| io::Error::from(io::ErrorKind::InvalidInput))?)?;
    let width: SignedBitCount<32> = w.try_into().map_err(|_| io::Error::from(io::ErrorKind::InvalidInput))?;
    let s = r.read_signed_counted::<32, i32>(width)?;
    Ok((method, order, msb, lsb, s))
}

macro_rules! k_dep_read_residual {
    ($name:ident, $k:expr, $w:expr) => {
        #[kani::proof]
        #[kani::unwind(10)]
        pub(crate) fn $name() {
            let mut m = model_bytes();
            let src = load::<8>(&m);
            let mut real = BitReader::endian(src, BigEndian);
            let a = rd_residual(&mut real, $k, $w);
            let b = rd_residual(&mut m, $k, $w);
            let same = match (&a, &b) {
                (Ok(x), Ok(y)) => x == y,
                (Err(_), Err(_)) => true,
                _ => false,
            };
            std::mem::forget((a, b));
            vk_assert!(same, "bitstream-io BitReader agrees with the dependency contract on unary runs, run-time-width remainders and two's-complement fields");
        }
    };
}
k_dep_read_residual!(k_dep_read_residual_k0_w1, 0, 1);
k_dep_read_residual!(k_dep_read_residual_k3_w17, 3, 17);
k_dep_read_residual!(k_dep_read_residual_k14_w32, 14, 32);

// metadata-like: whole big- and little-endian integers, byte runs, skips, alignment queries
fn rd_meta<R: BitRead + ?Sized>(r: &mut R) -> io::Result<(bool, u8, bool, u16, u32, [u8; 2], bool)> {
    let a0 = r.byte_aligned();
    let five = r.read::<5, u8>()?;
    let a1 = r.byte_aligned();
    r.skip(3)?;
    let be = r.read_to::<u16>()?;
    let le = r.read_as_to::<LittleEndian, u32>()?;
    let mut two = [0u8; 2];
    r.read_bytes(&mut two)?;
    Ok((a0, five, a1, be, le, two, r.byte_aligned()))
}

#[kani::proof]
#[kani::unwind(10)]
pub(crate) fn k_dep_read_meta_fields() {
    let mut m = model_bytes();
    let src = load::<8>(&m);
    let mut real = BitReader::endian(src, BigEndian);
    let a = rd_meta(&mut real);
    let b = rd_meta(&mut m);
    let same = match (&a, &b) {
        (Ok(x), Ok(y)) => x == y,
        (Err(_), Err(_)) => true,
        _ => false,
    };
    std::mem::forget((a, b));
    vk_assert!(same, "bitstream-io BitReader agrees with the dependency contract on whole integers of both byte orders, byte runs, skip and alignment");
}

// ---- writer scripts ---------------------------------------------------------------------------------------

fn same_bytes<const N: usize>(sink: &ByteSink<N>, m: &BitBuf<1>) -> bool {
    let mut ok = sink.len as u32 * 8 == m.len;
    let mut i = 0;
    while i < N {
        if i < sink.len {
            ok &= sink.data[i] == m.byte(i as u32);
        }
        i += 1;
    }
    ok
}

// The writer side is much more expensive for CBMC than the reader side (BitWriter's queue + write_all): the long scripts
// (a whole header, a whole residual, the metadata mix) were built and do not finish (10 min / out of memory); what finishes
// is one or two fields per script.
#[kani::proof]
#[kani::unwind(6)]
pub(crate) fn k_dep_write_unsigned_fields() {
    let a: u8 = kani::any();
    let b: u16 = kani::any();
    let mut sink = ByteSink::<4>::new();
    let ra = {
        let mut real = BitWriter::endian(&mut sink, BigEndian);
        real.write::<4, u8>(a).and_then(|_| real.write::<12, u16>(b)).is_ok()
    };
    let mut m = BitBuf::<1>::empty();
    let rb = m.write::<4, u8>(a).and_then(|_| m.write::<12, u16>(b)).is_ok();
    vk_assert!(ra == rb, "bitstream-io BitWriter rejects exactly the values that do not fit their field (dependency contract)");
    if ra {
        vk_assert!(same_bytes(&sink, &m), "bitstream-io BitWriter lays fixed-width fields out MSB-first exactly as the dependency contract says");
    }
}

macro_rules! k_dep_write_signed {
    ($name:ident, $w:expr) => {
        #[kani::proof]
        #[kani::unwind(10)]
        pub(crate) fn $name() {
            let s: i32 = kani::any();
            let mut sink = ByteSink::<5>::new();
            let width: SignedBitCount<32> = ($w as u32).try_into().unwrap();
            let ra = {
                let mut real = BitWriter::endian(&mut sink, BigEndian);
                real.write_signed_counted::<32, i32>(width, s).and_then(|_| real.byte_align()).is_ok()
            };
            let mut m = BitBuf::<1>::empty();
            let rb = m.write_signed_counted::<32, i32>(width, s).and_then(|_| BitWrite::byte_align(&mut m)).is_ok();
            vk_assert!(ra == rb, "bitstream-io BitWriter rejects exactly the values outside the two's-complement range of the field (dependency contract)");
            if ra {
                vk_assert!(same_bytes(&sink, &m), "bitstream-io BitWriter writes two's-complement fields and zero alignment padding as the dependency contract says");
            }
        }
    };
}
// (width 17: CBMC out of memory)
k_dep_write_signed!(k_dep_write_signed_w1, 1);
k_dep_write_signed!(k_dep_write_signed_w32, 32);

macro_rules! k_dep_write_unary {
    ($name:ident, $n:expr) => {
        #[kani::proof]
        #[kani::unwind(10)]
        pub(crate) fn $name() {
            // the run length is concrete per instance (a symbolic one makes the writer's position symbolic: 5 min timeout)
            let tail: u8 = kani::any();
            let mut sink = ByteSink::<4>::new();
            let ra = {
                let mut real = BitWriter::endian(&mut sink, BigEndian);
                real.write_unary::<1>($n).and_then(|_| real.write::<3, u8>(tail)).and_then(|_| real.byte_align()).is_ok()
            };
            let mut m = BitBuf::<1>::empty();
            let rb = BitWrite::write_unary::<1>(&mut m, $n).and_then(|_| m.write::<3, u8>(tail)).and_then(|_| BitWrite::byte_align(&mut m)).is_ok();
            vk_assert!(ra == rb, "bitstream-io BitWriter: unary run followed by a field is accepted / rejected as the dependency contract says");
            if ra {
                vk_assert!(same_bytes(&sink, &m), "bitstream-io BitWriter writes a unary run as n zero bits and a one bit");
            }
        }
    };
}
k_dep_write_unary!(k_dep_write_unary_0, 0);
// (runs of 5 and 13: CBMC out of memory; a run of 0 takes 12 min)

// A write-then-read round trip through the real library only (what harness/tape.rs relies on) was built for one residual
// (2-bit code, unary, remainder, signed field) and does not finish in 10 min; it follows from the reader and writer
// obligations above agreeing with one and the same model, for the field kinds they cover.
