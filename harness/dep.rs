// Conformance of the *assumed* dependency contract (harness/bits.rs) to the real `bitstream-io` code.
//
// Every other obligation runs the crate's parsers and builders against `BitBuf` / `Tape`, i.e. against what
// bits.rs says `bitstream_io::{BitRead, BitWrite}` do.  The harnesses below run one and the same generic
// script -- a sequence of exactly the field kinds flac-codec uses -- once on the real
// `bitstream_io::BitReader<_, BigEndian>` / `BitWriter<_, BigEndian>` over a byte stream and once on the model,
// for all stream contents, all truncation points (byte granular) and all written values, and compare results,
// error/success and the bytes produced.  Bounded: the scripts are short (the real reader's bit queue makes
// long symbolic scripts explode); each covers the field kinds of one part of the format.
use crate::verif_k::bits::{BitBuf, ByteSink, ByteSrc};
use crate::verif_k::{vk_assert, vk_undecided};
use bitstream_io::{BigEndian, BitCount, BitRead, BitReader, BitWrite, BitWriter, LittleEndian, SignedBitCount};
use std::io;

fn load<const N: usize>(b: &BitBuf<1>) -> ByteSrc<N> {
    let mut data = [0u8; N];
    let mut i = 0;
    while i < N {
        data[i] = b.byte(i as u32);
        i += 1;
    }
    ByteSrc { data, len: (b.len / 8) as usize, pos: 0, failed: false }
}

fn model_bytes() -> BitBuf<1> {
    let mut b = BitBuf::<1>::any();
    kani::assume(b.len % 8 == 0);
    b.rd_err_eof = true;
    b
}

// ---- reader scripts ---------------------------------------------------------------------------------------

// frame-header-like: fixed-width unsigned fields, single bits, a whole byte
fn rd_header<R: BitRead + ?Sized>(r: &mut R) -> io::Result<(u16, bool, bool, u8, u8, u8, u8, bool, u8, u16)> {
    Ok((r.read::<14, u16>()?, r.read_bit()?, r.read_bit()?, r.read::<4, u8>()?, r.read::<4, u8>()?, r.read::<4, u8>()?, r.read::<3, u8>()?, r.read_bit()?, r.read_to::<u8>()?, r.read::<16, u16>()?))
}

#[kani::proof]
#[kani::unwind(10)]
pub(crate) fn k_dep_read_header_fields() {
    let mut m = model_bytes();
    let src = load::<8>(&m);
    let mut real = BitReader::endian(src, BigEndian);
    let a = rd_header(&mut real);
    let b = rd_header(&mut m);
    let same = match (&a, &b) {
        (Ok(x), Ok(y)) => x == y,
        (Err(_), Err(_)) => true,
        _ => false,
    };
    std::mem::forget((a, b));
    vk_assert!(same, "bitstream-io BitReader agrees with the dependency contract on fixed-width fields, bits and bytes (values and end-of-stream)");
}

// residual-like: 2+4 bit codes, a unary run, a remainder of run-time width, a signed field of run-time width
fn rd_residual<R: BitRead + ?Sized>(r: &mut R, k: u32, w: u32) -> io::Result<(u8, u32, u32, u32, i32)> {
    let method = r.read::<2, u8>()?;
    let order = r.read::<4, u32>()?;
    let msb = r.read_unary::<1>()?;
    let lsb = r.read_counted::<0b1111, u32>(BitCount::try_from(k).map_err(|_| io::Error::from(io::ErrorKind::InvalidInput))?)?;
    let width: SignedBitCount<32> = w.try_into().map_err(|_| io::Error::from(io::ErrorKind::InvalidInput))?;
    let s = r.read_signed_counted::<32, i32>(width)?;
    Ok((method, order, msb, lsb, s))
}

macro_rules! k_dep_read_residual {
    ($name:ident, $k:expr, $w:expr) => {
        #[kani::proof]
        #[kani::unwind(10)]
        pub(crate) fn $name() {
            let mut m = model_bytes();
            let src = load::<8>(&m);
            let mut real = BitReader::endian(src, BigEndian);
            let a = rd_residual(&mut real, $k, $w);
            let b = rd_residual(&mut m, $k, $w);
            let same = match (&a, &b) {
                (Ok(x), Ok(y)) => x == y,
                (Err(_), Err(_)) => true,
                _ => false,
            };
            std::mem::forget((a, b));
            vk_assert!(same, "bitstream-io BitReader agrees with the dependency contract on unary runs, run-time-width remainders and two's-complement fields");
        }
    };
}
k_dep_read_residual!(k_dep_read_residual_k0_w1, 0, 1);
k_dep_read_residual!(k_dep_read_residual_k3_w17, 3, 17);
k_dep_read_residual!(k_dep_read_residual_k14_w32, 14, 32);

// metadata-like: whole big- and little-endian integers, byte runs, skips, alignment queries
fn rd_meta<R: BitRead + ?Sized>(r: &mut R) -> io::Result<(bool, u8, bool, u16, u32, [u8; 2], bool)> {
    let a0 = r.byte_aligned();
    let five = r.read::<5, u8>()?;
    let a1 = r.byte_aligned();
    r.skip(3)?;
    let be = r.read_to::<u16>()?;
    let le = r.read_as_to::<LittleEndian, u32>()?;
    let mut two = [0u8; 2];
    r.read_bytes(&mut two)?;
    Ok((a0, five, a1, be, le, two, r.byte_aligned()))
}

#[kani::proof]
#[kani::unwind(10)]
pub(crate) fn k_dep_read_meta_fields() {
    let mut m = model_bytes();
    let src = load::<8>(&m);
    let mut real = BitReader::endian(src, BigEndian);
    let a = rd_meta(&mut real);
    let b = rd_meta(&mut m);
    let same = match (&a, &b) {
        (Ok(x), Ok(y)) => x == y,
        (Err(_), Err(_)) => true,
        _ => false,
    };
    std::mem::forget((a, b));
    vk_assert!(same, "bitstream-io BitReader agrees with the dependency contract on whole integers of both byte orders, byte runs, skip and alignment");
}

// ---- writer scripts ---------------------------------------------------------------------------------------

fn same_bytes<const N: usize>(sink: &ByteSink<N>, m: &BitBuf<1>) -> bool {
    let mut ok = sink.len as u32 * 8 == m.len;
    let mut i = 0;
    while i < N {
        if i < sink.len {
            ok &= sink.data[i] == m.byte(i as u32);
        }
        i += 1;
    }
    ok
}

fn wr_header<W: BitWrite + ?Sized>(w: &mut W, v: (u16, bool, u8, u8, u8, u8, u16)) -> io::Result<()> {
    w.write::<14, u16>(v.0)?;
    w.write_bit(v.1)?;
    w.write_bit(!v.1)?;
    w.write::<4, u8>(v.2)?;
    w.write::<4, u8>(v.3)?;
    w.write::<4, u8>(v.3 >> 4)?;
    w.write::<3, u8>(v.4)?;
    w.write_bit(false)?;
    w.write_from::<u8>(v.5)?;
    w.write::<16, u16>(v.6)
}

#[kani::proof]
#[kani::unwind(10)]
pub(crate) fn k_dep_write_header_fields() {
    let v: (u16, bool, u8, u8, u8, u8, u16) = kani::any();
    let mut sink = ByteSink::<8>::new();
    let a = {
        let mut real = BitWriter::endian(&mut sink, BigEndian);
        wr_header(&mut real, v).is_ok()
    };
    let mut m = BitBuf::<1>::empty();
    let b = wr_header(&mut m, v).is_ok();
    vk_assert!(a == b, "bitstream-io BitWriter rejects exactly the values that do not fit their field (dependency contract)");
    // a value that does not fit is rejected; what was written before it is the same on both sides up to the last whole byte
    if a {
        vk_assert!(same_bytes(&sink, &m), "bitstream-io BitWriter lays fixed-width fields out MSB-first exactly as the dependency contract says");
    }
}

fn wr_residual<W: BitWrite + ?Sized>(w: &mut W, k: u32, width: u32, msb: u32, lsb: u32, s: i32) -> io::Result<()> {
    w.write::<2, u8>(1)?;
    w.write_unary::<1>(msb)?;
    w.write_counted::<0b1111, u32>(BitCount::try_from(k).map_err(|_| io::Error::from(io::ErrorKind::InvalidInput))?, lsb)?;
    let width: SignedBitCount<32> = width.try_into().map_err(|_| io::Error::from(io::ErrorKind::InvalidInput))?;
    w.write_signed_counted::<32, i32>(width, s)?;
    w.byte_align()
}

macro_rules! k_dep_write_residual {
    ($name:ident, $k:expr, $w:expr) => {
        #[kani::proof]
        #[kani::unwind(12)]
        pub(crate) fn $name() {
            let msb: u32 = kani::any();
            kani::assume(msb <= 9);
            let lsb: u32 = kani::any();
            let s: i32 = kani::any();
            let mut sink = ByteSink::<8>::new();
            let a = {
                let mut real = BitWriter::endian(&mut sink, BigEndian);
                wr_residual(&mut real, $k, $w, msb, lsb, s).is_ok()
            };
            let mut m = BitBuf::<1>::empty();
            let b = wr_residual(&mut m, $k, $w, msb, lsb, s).is_ok();
            vk_assert!(a == b, "bitstream-io BitWriter rejects exactly the values that do not fit a run-time-width unsigned or signed field (dependency contract)");
            if a {
                vk_assert!(same_bytes(&sink, &m), "bitstream-io BitWriter lays out unary runs, remainders, two's-complement fields and alignment padding as the dependency contract says");
            }
        }
    };
}
k_dep_write_residual!(k_dep_write_residual_k0_w1, 0, 1);
k_dep_write_residual!(k_dep_write_residual_k3_w17, 3, 17);
k_dep_write_residual!(k_dep_write_residual_k14_w32, 14, 32);

fn wr_meta<W: BitWrite + ?Sized>(w: &mut W, five: u8, be: u16, le: u32, two: [u8; 2]) -> io::Result<(bool, bool, bool)> {
    let a0 = w.byte_aligned();
    w.write::<5, u8>(five)?;
    let a1 = w.byte_aligned();
    w.pad(3)?;
    w.write_from::<u16>(be)?;
    w.write_as_from::<LittleEndian, u32>(le)?;
    w.write_bytes(&two)?;
    Ok((a0, a1, w.byte_aligned()))
}

#[kani::proof]
#[kani::unwind(10)]
pub(crate) fn k_dep_write_meta_fields() {
    let five: u8 = kani::any();
    let be: u16 = kani::any();
    let le: u32 = kani::any();
    let two: [u8; 2] = kani::any();
    let mut sink = ByteSink::<10>::new();
    let a = {
        let mut real = BitWriter::endian(&mut sink, BigEndian);
        wr_meta(&mut real, five, be, le, two)
    };
    let mut m = BitBuf::<2>::empty();
    let b = wr_meta(&mut m, five, be, le, two);
    let same = match (&a, &b) {
        (Ok(x), Ok(y)) => x == y,
        (Err(_), Err(_)) => true,
        _ => false,
    };
    let ok = a.is_ok();
    std::mem::forget((a, b));
    vk_assert!(same, "bitstream-io BitWriter agrees with the dependency contract on alignment queries and value rejection");
    if ok {
        let mut eq = sink.len as u32 * 8 == m.len;
        let mut i = 0;
        while i < 9 {
            eq &= sink.data[i] == m.byte(i as u32);
            i += 1;
        }
        vk_assert!(eq, "bitstream-io BitWriter writes whole integers of both byte orders, byte runs and zero padding as the dependency contract says");
    }
}

// ---- round trip through the real library only: what the field tape (harness/tape.rs) relies on ------------
// "a reader that asks for the same kinds and widths the writer used gets the written values back"
macro_rules! k_dep_roundtrip {
    ($name:ident, $k:expr, $w:expr) => {
        #[kani::proof]
        #[kani::unwind(12)]
        pub(crate) fn $name() {
            let msb: u32 = kani::any();
            kani::assume(msb <= 9);
            let lsb: u32 = kani::any();
            kani::assume($k == 0 && lsb == 0 || $k > 0 && (lsb >> ($k as u32 % 32)) == 0);
            let s: i32 = kani::any();
            kani::assume($w == 32 || (s >= -(1i32 << (($w as u32 - 1) % 31)) && s < (1i32 << (($w as u32 - 1) % 31))));
            let mut sink = ByteSink::<8>::new();
            let wrote = {
                let mut real = BitWriter::endian(&mut sink, BigEndian);
                wr_residual(&mut real, $k, $w, msb, lsb, s).is_ok()
            };
            vk_assert!(wrote, "values inside their field's range are accepted by bitstream-io BitWriter");
            let src = ByteSrc::<8> { data: sink.data, len: sink.len, pos: 0, failed: false };
            let mut real = BitReader::endian(src, BigEndian);
            let back = rd_residual_after_method(&mut real, $k, $w);
            let same = match &back {
                Ok(x) => *x == (1u8, msb, lsb, s),
                Err(_) => false,
            };
            std::mem::forget(back);
            vk_assert!(same, "bitstream-io: reading the kinds and widths that were written returns the written values (field-tape contract)");
        }
    };
}
fn rd_residual_after_method<R: BitRead + ?Sized>(r: &mut R, k: u32, w: u32) -> io::Result<(u8, u32, u32, i32)> {
    let method = r.read::<2, u8>()?;
    let msb = r.read_unary::<1>()?;
    let lsb = r.read_counted::<0b1111, u32>(BitCount::try_from(k).map_err(|_| io::Error::from(io::ErrorKind::InvalidInput))?)?;
    let width: SignedBitCount<32> = w.try_into().map_err(|_| io::Error::from(io::ErrorKind::InvalidInput))?;
    let s = r.read_signed_counted::<32, i32>(width)?;
    Ok((method, msb, lsb, s))
}
k_dep_roundtrip!(k_dep_roundtrip_k3_w17, 3, 17);
k_dep_roundtrip!(k_dep_roundtrip_k14_w32, 14, 32);
k_dep_roundtrip!(k_dep_roundtrip_k0_w1, 0, 1);

// ---- experiments ----
#[kani::proof]
#[kani::unwind(6)]
pub(crate) fn k_dep_x_write_small() {
    let a: u8 = kani::any();
    let b: u16 = kani::any();
    let mut sink = ByteSink::<4>::new();
    let ra = {
        let mut real = BitWriter::endian(&mut sink, BigEndian);
        real.write::<4, u8>(a).and_then(|_| real.write::<12, u16>(b)).is_ok()
    };
    let mut m = BitBuf::<1>::empty();
    let rb = m.write::<4, u8>(a).and_then(|_| m.write::<12, u16>(b)).is_ok();
    vk_assert!(ra == rb, "x");
    if ra { vk_assert!(same_bytes(&sink, &m), "y"); }
}
#[kani::proof]
#[kani::unwind(12)]
pub(crate) fn k_dep_x_write_unary() {
    let n: u32 = kani::any();
    kani::assume(n <= 9);
    let mut sink = ByteSink::<4>::new();
    let ra = {
        let mut real = BitWriter::endian(&mut sink, BigEndian);
        real.write_unary::<1>(n).and_then(|_| real.byte_align()).is_ok()
    };
    let mut m = BitBuf::<1>::empty();
    let rb = BitWrite::write_unary::<1>(&mut m, n).and_then(|_| BitWrite::byte_align(&mut m)).is_ok();
    vk_assert!(ra == rb, "x");
    if ra { vk_assert!(same_bytes(&sink, &m), "y"); }
}
#[kani::proof]
#[kani::unwind(6)]
pub(crate) fn k_dep_x_write_signed() {
    let s: i32 = kani::any();
    let mut sink = ByteSink::<4>::new();
    let width: SignedBitCount<32> = 17u32.try_into().unwrap();
    let ra = {
        let mut real = BitWriter::endian(&mut sink, BigEndian);
        real.write_signed_counted::<32, i32>(width, s).and_then(|_| real.byte_align()).is_ok()
    };
    let mut m = BitBuf::<1>::empty();
    let rb = m.write_signed_counted::<32, i32>(width, s).and_then(|_| BitWrite::byte_align(&mut m)).is_ok();
    vk_assert!(ra == rb, "x");
    if ra { vk_assert!(same_bytes(&sink, &m), "y"); }
}
