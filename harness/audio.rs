// harnesses for crate::audio (child module: sees private items)
#![allow(dead_code, unused_imports)]
use super::*;
use crate::verif_k::vk_assert;

/// read access to the private sample store for harnesses in other modules
pub(crate) fn frame_samples(f: &Frame) -> &[i32] {
    &f.samples
}
pub(crate) fn frame_shape(f: &Frame) -> (usize, usize, u32) {
    (f.channels, f.channel_len, f.bits_per_sample)
}

/// fills `f` as a decoded block of an abstract stream whose sample at position p in channel c is
/// `value_at(c, p)`; positions start at `start`
pub(crate) fn fill_abstract(f: &mut Frame, channels: usize, block: usize, start: u64) {
    f.resize(16, channels, block);
    let mut c = 0;
    while c < channels {
        let mut i = 0;
        while i < block {
            f.samples[c * block + i] = value_at(c, start + i as u64);
            i += 1;
        }
        c += 1;
    }
}
pub(crate) fn value_at(c: usize, p: u64) -> i32 {
    (p as i32) * 8 + c as i32
}

/// what Frame::fill_from_samples does to the shape (the de-interleaving itself is out of CBMC's reach)
pub(crate) fn set_interleaved_len(f: &mut Frame, total_samples: usize) {
    f.channel_len = if f.channels == 0 { 0 } else { total_samples / f.channels };
    f.samples.resize(total_samples, 0);
}
