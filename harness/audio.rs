// harnesses for crate::audio (child module: sees private items)
#![allow(dead_code, unused_imports)]
use super::*;
use crate::verif_k::vk_assert;

/// read access to the private sample store for harnesses in other modules
pub(crate) fn frame_samples(f: &Frame) -> &[i32] {
    &f.samples
}
pub(crate) fn frame_shape(f: &Frame) -> (usize, usize, u32) {
    (f.channels, f.channel_len, f.bits_per_sample)
}
