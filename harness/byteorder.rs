// harnesses for crate::byteorder (child module: sees private items)
#![allow(dead_code, unused_imports)]
use super::*;
use crate::verif_k::vk_assert;

// contract (all values): the byte image of a sample is its two's-complement value at the sample's byte width in the
// stated byte order; to_bytes/from_bytes are mutual inverses; 24-bit values are sign-extended from bit 23
macro_rules! k_endian {
    ($name:ident, $e:ty, $le:expr) => {
        #[kani::proof]
        pub(crate) fn $name() {
            let a: i8 = kani::any();
            vk_assert!(<$e>::i8_to_bytes(a) == [a as u8] && <$e>::bytes_to_i8([a as u8]) == a, "8-bit samples are one two's-complement byte");
            let b: i16 = kani::any();
            let bb = <$e>::i16_to_bytes(b);
            vk_assert!(bb == if $le { b.to_le_bytes() } else { b.to_be_bytes() } && <$e>::bytes_to_i16(bb) == b, "16-bit samples in the stated byte order, invertible");
            let c: i32 = kani::any();
            kani::assume(c >= -(1 << 23) && c < (1 << 23));
            let cb = <$e>::i24_to_bytes(c);
            let full = (c as u32) & 0xFF_FFFF;
            let want = if $le { [full as u8, (full >> 8) as u8, (full >> 16) as u8] } else { [(full >> 16) as u8, (full >> 8) as u8, full as u8] };
            vk_assert!(cb == want && <$e>::bytes_to_i24(cb) == c, "24-bit samples: low three two's-complement bytes in the stated order, sign-extended on the way back");
            let raw: [u8; 3] = kani::any();
            let v = <$e>::bytes_to_i24(raw);
            vk_assert!(v >= -(1 << 23) && v < (1 << 23) && <$e>::i24_to_bytes(v) == raw, "every 3-byte pattern is a 24-bit sample");
            let d: i32 = kani::any();
            let db = <$e>::i32_to_bytes(d);
            vk_assert!(db == if $le { d.to_le_bytes() } else { d.to_be_bytes() } && <$e>::bytes_to_i32(db) == d, "32-bit samples in the stated byte order, invertible");
        }
    };
}
k_endian!(k_little_endian_samples, LittleEndian, true);
k_endian!(k_big_endian_samples, BigEndian, false);

// contract: bytes_to_le / bytes_to_be reverse each sample of the given width, or do nothing when already in that order
#[kani::proof]
#[kani::unwind(8)]
pub(crate) fn k_byte_order_swap() {
    let orig: [u8; 6] = kani::any();
    let w: usize = kani::any();
    kani::assume(w == 1 || w == 2 || w == 3);
    let mut a = orig;
    LittleEndian::bytes_to_le(&mut a, w);
    vk_assert!(a == orig, "little-endian data is already little-endian");
    let mut b = orig;
    BigEndian::bytes_to_be(&mut b, w);
    vk_assert!(b == orig, "big-endian data is already big-endian");
    let mut c = orig;
    BigEndian::bytes_to_le(&mut c, w);
    let mut d = orig;
    LittleEndian::bytes_to_be(&mut d, w);
    let mut i = 0;
    while i < 6 {
        let j = (i / w) * w + (w - 1 - i % w);
        vk_assert!(c[i] == orig[j] && d[i] == orig[j], "changing byte order reverses the bytes of every sample");
        i += 1;
    }
}
