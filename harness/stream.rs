// harnesses for crate::stream (child module: sees private items)
#![allow(dead_code, unused_imports)]
use super::*;
use crate::verif_k::bits::{BitBuf, ByteSink, ByteSrc};
use crate::verif_k::spec;
use crate::verif_k::spechdr::{self, SpecHeader, V};
use crate::verif_k::tape::Tape;
use crate::verif_k::{vk_assert, vk_undecided};

fn hdr_matches(h: &FrameHeader, s: &SpecHeader, si_rate: u32, si_bps: u32) -> bool {
    let ch_code: u32 = match h.channel_assignment {
        ChannelAssignment::Independent(c) => (c as u8 as u32) - 1,
        ChannelAssignment::LeftSide => 8,
        ChannelAssignment::SideRight => 9,
        ChannelAssignment::MidSide => 10,
    };
    h.blocking_strategy == s.blocking
        && u32::from(u16::from(h.block_size)) == s.block_size
        && u32::from(h.sample_rate) == s.rate.unwrap_or(si_rate)
        && ch_code == s.ch_code
        && u32::from(h.channel_assignment.count()) == spechdr::channels_of_code(s.ch_code)
        && u32::from(h.bits_per_sample) == s.bps.unwrap_or(si_bps)
        && h.frame_number.0 == s.number
}

// contract (RFC 9639 §9.1, all 128-bit strings): FrameHeader::parse (subset form, no STREAMINFO)
//   Ok(h)  => the RFC reading of the bits is not MustReject, uses no STREAMINFO reference, and h carries exactly the RFC values
//   RFC Valid and self-describing => Ok;  exactly the header's bits are consumed
#[kani::proof]
#[kani::unwind(8)]
pub(crate) fn k_hdr_parse_subset_vs_rfc() {
    let mut b: BitBuf<2> = BitBuf::any_full();
    let (v, s) = spechdr::spec_parse(&b);
    let r = <FrameHeader as FromBitStream>::from_reader(&mut b);
    match r {
        Ok(h) => {
            vk_assert!(v != V::MustReject, "frame header with a reserved / illegal code accepted");
            vk_assert!(s.rate.is_some() && s.bps.is_some(), "subset header parse accepted a STREAMINFO reference");
            vk_assert!(hdr_matches(&h, &s, 0, 0), "parsed header fields differ from the RFC 9639 9.1 reading");
            vk_assert!(b.pos == s.bits, "header parse consumed a different number of bits than the header occupies");
        }
        Err(_) => {
            vk_assert!(!(v == V::Valid && s.rate.is_some() && s.bps.is_some()), "valid self-describing frame header rejected");
        }
    }
    kani::cover!(v == V::Valid && s.number_bytes == 7 && s.bs_code == 7 && s.rate_code == 14, "longest header reachable");
}

// contract: FrameHeader::from_reader with STREAMINFO: as above, STREAMINFO references resolved, and
//   Ok(h) => block size <= STREAMINFO maximum, rate, channel count and bits-per-sample equal STREAMINFO's
#[kani::proof]
#[kani::unwind(8)]
pub(crate) fn k_hdr_parse_streaminfo_vs_rfc() {
    let mut b: BitBuf<2> = BitBuf::any_full();
    let (v, s) = spechdr::spec_parse(&b);
    let si_rate: u32 = kani::any();
    kani::assume(si_rate < (1 << 20));
    let si_bps: u32 = kani::any();
    kani::assume(si_bps >= 1 && si_bps <= 32);
    let si_ch: u8 = kani::any();
    kani::assume(si_ch >= 1 && si_ch <= 8);
    let si_max: u16 = kani::any();
    let si = crate::metadata::Streaminfo {
        minimum_block_size: 0,
        maximum_block_size: si_max,
        minimum_frame_size: None,
        maximum_frame_size: None,
        sample_rate: si_rate,
        channels: NonZero::new(si_ch).unwrap(),
        bits_per_sample: SignedBitCount::<32>::try_from(si_bps).unwrap(),
        total_samples: None,
        md5: None,
    };
    let r = <FrameHeader as FromBitStreamWith>::from_reader(&mut b, &si);
    let consistent = s.block_size <= si_max as u32
        && s.rate.unwrap_or(si_rate) == si_rate
        && spechdr::channels_of_code(s.ch_code) == si_ch as u32
        && s.bps.unwrap_or(si_bps) == si_bps;
    match r {
        Ok(h) => {
            vk_assert!(v != V::MustReject, "frame header with a reserved / illegal code accepted");
            vk_assert!(hdr_matches(&h, &s, si_rate, si_bps), "parsed header fields differ from the RFC 9639 9.1 reading");
            vk_assert!(consistent, "frame header inconsistent with STREAMINFO accepted");
        }
        Err(_) => {
            vk_assert!(!(v == V::Valid && consistent), "valid frame header consistent with STREAMINFO rejected");
        }
    }
}

fn any_channel_assignment() -> ChannelAssignment {
    let c: u8 = kani::any();
    kani::assume(c <= 10);
    match c {
        0 => ChannelAssignment::Independent(Independent::Mono),
        1 => ChannelAssignment::Independent(Independent::Stereo),
        2 => ChannelAssignment::Independent(Independent::Channels3),
        3 => ChannelAssignment::Independent(Independent::Channels4),
        4 => ChannelAssignment::Independent(Independent::Channels5),
        5 => ChannelAssignment::Independent(Independent::Channels6),
        6 => ChannelAssignment::Independent(Independent::Channels7),
        7 => ChannelAssignment::Independent(Independent::Channels8),
        8 => ChannelAssignment::LeftSide,
        9 => ChannelAssignment::SideRight,
        _ => ChannelAssignment::MidSide,
    }
}

/// every header the encoder can construct: block size 1..=65535, any rate < 2^20, bps 1..=32, number < 2^36
fn any_encoder_header() -> (FrameHeader, u32, u32, u32) {
    let n: u16 = kani::any();
    kani::assume(n >= 1);
    let rate: u32 = kani::any();
    kani::assume(rate < (1 << 20));
    let bps: u32 = kani::any();
    kani::assume(bps >= 1 && bps <= 32);
    let num: u64 = kani::any();
    kani::assume(num < (1 << 36));
    let h = FrameHeader {
        blocking_strategy: kani::any(),
        block_size: BlockSize::try_from(n).unwrap(),
        sample_rate: SampleRate::try_from(rate).unwrap(),
        channel_assignment: any_channel_assignment(),
        bits_per_sample: BitsPerSample::from(SignedBitCount::<32>::try_from(bps).unwrap()),
        frame_number: FrameNumber(num),
    };
    (h, n as u32, rate, bps)
}

fn min_number_bytes(n: u64) -> u32 {
    if n < 0x80 { 1 } else if n < 0x800 { 2 } else if n < 0x1_0000 { 3 } else if n < 0x20_0000 { 4 } else if n < 0x400_0000 { 5 } else if n < 0x8000_0000 { 6 } else { 7 }
}

// contract (RFC 9639 §9.1, every header the encoder can construct): FrameHeader::build
//   Ok(()), the bits written read back under the RFC as a Valid header (zero reserved bit, shortest
//   number coding) with exactly these values; STREAMINFO references only where the value has no code
#[kani::proof]
#[kani::unwind(8)]
pub(crate) fn k_hdr_build_vs_rfc() {
    let (h, n, rate, bps) = any_encoder_header();
    let mut b: BitBuf<2> = BitBuf::empty();
    let r = h.build(&mut b);
    vk_assert!(r.is_ok(), "building a constructible frame header failed");
    vk_assert!(b.len % 8 == 0 && b.len <= 120, "header is a whole number of bytes, at most 15 before the CRC");
    let written = b.len;
    b.len = 128; // the CRC byte and beyond are irrelevant to the field reading
    let (v, s) = spechdr::spec_parse(&b);
    vk_assert!(v == V::Valid, "built header is not a valid RFC 9639 9.1 header (reserved code / reserved bit / bad number coding)");
    vk_assert!(s.bits == written + 8, "built header has a different length than its RFC reading");
    vk_assert!(hdr_matches(&h, &s, rate, bps), "built header reads back under the RFC with different values");
    vk_assert!(s.block_size == n, "block size coded wrongly");
    vk_assert!(s.number_bytes == min_number_bytes(h.frame_number.0), "frame number not in its shortest coding");
    // codes are self-describing whenever the format has a code for the value
    if spechdr::bps_of_code(1) == bps || bps == 12 || bps == 16 || bps == 20 || bps == 24 || bps == 32 {
        vk_assert!(s.bps == Some(bps), "bits-per-sample with a header code written as a STREAMINFO reference");
    }
    if s.rate.is_none() {
        let representable = (rate % 1000 == 0 && rate / 1000 <= 255) || (rate <= 65535) || (rate % 10 == 0 && rate / 10 <= 65535);
        vk_assert!(!representable || rate == 255000 || rate == 65535 || rate == 655350, "sample rate with a header coding written as a STREAMINFO reference");
    }
    kani::cover!(s.number_bytes == 7, "7-byte number reachable");
}

// contract (C17: a parsed header is re-serialised unchanged, also when its block size uses a longer coding than necessary):
//   FrameHeader::build of a header whose block size is Uncommon8(n) / Uncommon16(n), for every n the variant can hold, writes the
//   4-bit code of that variant followed by n - 1 in a field of that variant's width (8 / 16 bits) -- the width never depends on n
#[kani::proof]
#[kani::unwind(8)]
pub(crate) fn k_hdr_build_uncommon_block_size() {
    let wide: bool = kani::any();
    let n: u16 = kani::any();
    kani::assume(n >= 1 && (wide || n <= 256));
    let num: u64 = kani::any();
    kani::assume(num < (1 << 36));
    let h = FrameHeader {
        blocking_strategy: kani::any(),
        block_size: if wide { BlockSize::Uncommon16(n) } else { BlockSize::Uncommon8(n) },
        sample_rate: SampleRate::try_from(44100u32).unwrap(),
        channel_assignment: any_channel_assignment(),
        bits_per_sample: BitsPerSample::from(SignedBitCount::<32>::try_from(16u32).unwrap()),
        frame_number: FrameNumber(num),
    };
    let mut b: BitBuf<2> = BitBuf::empty();
    let r = h.build(&mut b);
    vk_assert!(r.is_ok(), "building a header with an uncommon block size failed");
    let written = b.len;
    b.len = 128;
    let (v, s) = spechdr::spec_parse(&b);
    vk_assert!(v == V::Valid, "built header is not a valid RFC 9639 9.1 header");
    vk_assert!(s.bs_code == if wide { 7 } else { 6 }, "the block-size code is the one of the variant that was parsed (8-bit or 16-bit field), whatever the value");
    vk_assert!(s.block_size == n as u32 && s.bits == written + 8, "the block size field has the width its code announces and holds n - 1");
}

// ------------------------------------------------------------------ CRC-8 gate, modular
//
// FrameHeader::read / read_subset / write / write_subset wrap the field codec in a CRC-8 reader or
// writer.  The real BitReader/BitWriter stack over a whole symbolic header does not finish in CBMC
// (measured: > 10 min), so the field codec is replaced by its contract (parse: consumes the
// header's bytes and yields a header or an error; build: emits the header's bytes) and the
// obligation is the gate itself:
//   read*:  Ok(h) => parse Ok and CRC-8 (RFC polynomial) over exactly the bytes parse consumed is 0;
//           parse Ok and CRC 0 => Ok; parse Err => Err
//   write*: bytes delivered == bytes build emitted ++ CRC-8 of those bytes
use std::sync::atomic::{AtomicUsize, Ordering::Relaxed};
static G_PARSE_FAIL: AtomicUsize = AtomicUsize::new(0);
static G_BUILD_WORD: AtomicUsize = AtomicUsize::new(0);

fn fixed_header() -> FrameHeader {
    FrameHeader {
        blocking_strategy: false,
        block_size: BlockSize::Samples4096,
        sample_rate: SampleRate::Hz44100,
        channel_assignment: ChannelAssignment::Independent(Independent::Mono),
        bits_per_sample: BitsPerSample::Bps16,
        frame_number: FrameNumber(0),
    }
}

fn stub_parse<R: BitRead + ?Sized>(r: &mut R, _rate: Option<u32>, _bps: Option<SignedBitCount<32>>) -> Result<FrameHeader, Error> {
    r.skip(24)?; // a 2-byte model header followed by its CRC-8 byte
    if G_PARSE_FAIL.load(Relaxed) != 0 { Err(Error::InvalidSyncCode) } else { Ok(fixed_header()) }
}

fn stub_build<W: BitWrite + ?Sized>(_h: &FrameHeader, w: &mut W) -> Result<(), Error> {
    w.write::<16, u16>(G_BUILD_WORD.load(Relaxed) as u16)?;
    Ok(())
}

#[kani::proof]
#[kani::unwind(5)]
#[kani::stub(FrameHeader::parse, stub_parse)]
pub(crate) fn k_hdr_read_subset_crc8_gate() {
    let bytes: [u8; 3] = kani::any();
    let fail: bool = kani::any();
    G_PARSE_FAIL.store(fail as usize, Relaxed);
    let mut src = ByteSrc::<3>::full(bytes);
    let r = FrameHeader::read_subset(&mut src);
    let crc = spec::crc8_step(spec::crc8_step(spec::crc8_step(0, bytes[0]), bytes[1]), bytes[2]);
    vk_assert!(r.is_ok() == (!fail && crc == 0), "read_subset releases a header iff the fields parse and CRC-8 over the header bytes is zero");
    vk_assert!(src.pos == 3, "CRC-8 covers exactly the bytes of the header");
}

#[kani::proof]
#[kani::unwind(5)]
#[kani::stub(FrameHeader::parse, stub_parse)]
pub(crate) fn k_hdr_read_crc8_gate() {
    let bytes: [u8; 3] = kani::any();
    let fail: bool = kani::any();
    G_PARSE_FAIL.store(fail as usize, Relaxed);
    let mut src = ByteSrc::<3>::full(bytes);
    let si = crate::metadata::Streaminfo {
        minimum_block_size: 16, maximum_block_size: 4096, minimum_frame_size: None, maximum_frame_size: None,
        sample_rate: 44100, channels: NonZero::new(1).unwrap(), bits_per_sample: SignedBitCount::<32>::new::<16>(),
        total_samples: None, md5: None,
    };
    let r = FrameHeader::read(&mut src, &si);
    let crc = spec::crc8_step(spec::crc8_step(spec::crc8_step(0, bytes[0]), bytes[1]), bytes[2]);
    vk_assert!(r.is_ok() == (!fail && crc == 0), "read releases a header iff the fields parse and CRC-8 over the header bytes is zero");
    vk_assert!(src.pos == 3, "CRC-8 covers exactly the bytes of the header");
}

#[kani::proof]
#[kani::unwind(5)]
#[kani::stub(FrameHeader::build, stub_build)]
pub(crate) fn k_hdr_write_crc8_gate() {
    let word: u16 = kani::any();
    G_BUILD_WORD.store(word as usize, Relaxed);
    let mut sink = ByteSink::<4>::new();
    let subset: bool = kani::any();
    let si = crate::metadata::Streaminfo {
        minimum_block_size: 16, maximum_block_size: 4096, minimum_frame_size: None, maximum_frame_size: None,
        sample_rate: 44100, channels: NonZero::new(1).unwrap(), bits_per_sample: SignedBitCount::<32>::new::<16>(),
        total_samples: None, md5: None,
    };
    let r = if subset { fixed_header().write_subset(&mut sink) } else { fixed_header().write(&mut sink, &si) };
    vk_assert!(r.is_ok(), "writing into a large enough buffer succeeds");
    let b0 = (word >> 8) as u8;
    let b1 = word as u8;
    vk_assert!(sink.len == 3 && sink.data[0] == b0 && sink.data[1] == b1, "header bytes delivered unchanged");
    vk_assert!(sink.data[2] == spec::crc8_step(spec::crc8_step(0, b0), b1), "last byte is the CRC-8 (RFC polynomial) of the header bytes");
}

// ------------------------------------------------------------------ structural residual parser (C17)
//
// stream::read_subframe / Residuals::from_reader build Vec-of-Vec structures through
// `(0..n).map(..).collect::<Result<Vec<_>, _>>()`; CBMC does not get through symbolic execution of
// that even for a 3-sample verbatim subframe (measured: > 5 min in symex), so the positive side
// (parse -> decode/write identity) is NOT decided.  What is decided is the rejection rule, which
// returns before any collection is built:
// contract: Residuals::from_reader => Err whenever the coding method is reserved or RFC 9639 §9.2.7
// forbids the partition order for the block — the same inputs the streaming decoder rejects
// (K-res_total_*), so the two parsers agree on them.  [measured: that does not finish either; not registered]
// Subframe::decode (Box<dyn Iterator> over flat_map) does not finish either (> 5 min).
use crate::verif_k::tape::{K_S, K_U, K_UN1};
use crate::verif_k::specenc;

fn any_i64_within(bits: u32) -> i64 {
    let v: i64 = kani::any();
    kani::assume(spec::fits(v, bits));
    v
}

// contract: write_subframe on a VERBATIM / FIXED structure emits the RFC 9639 field sequence
#[kani::proof]
#[kani::unwind(5)]
pub(crate) fn k_struct_write_fixed1() {
    let bps: u32 = kani::any();
    kani::assume(bps >= 4 && bps <= 32);
    let x0 = any_i64_within(bps);
    let r = [any_i64_within(31), any_i64_within(31)];
    let k: u32 = kani::any();
    kani::assume(k < 15);
    kani::assume(specenc::partition_valid(specenc::PKind::Rice, 0, k, &r));
    let sub: Subframe<i32> = Subframe::Fixed {
        order: 1,
        warm_up: vec![x0 as i32],
        residuals: Residuals::Method0 {
            partitions: vec![ResidualPartition::Standard { rice: BitCount::<0b1111>::try_from(k).unwrap(), residuals: vec![r[0] as i32, r[1] as i32] }],
        },
        wasted_bps: 0,
    };
    let mut out: Tape<16> = Tape::new();
    let w = write_subframe::<32, _, i32>(&mut out, SignedBitCount::<32>::try_from(bps).unwrap(), &sub);
    vk_assert!(w.is_ok(), "serialising a well-formed structure failed");
    let mut want: Tape<16> = Tape::new();
    specenc::gen_subframe_header(&mut want, specenc::t_fixed(1), false, 0);
    want.preload(K_S, bps, x0 as u64);
    specenc::gen_residuals(&mut want, 0, 0, 1, &r, &[specenc::PKind::Rice], &[k]);
    vk_assert!(out.len == want.len, "serialised subframe has a different number of fields than the RFC coding");
    macro_rules! same { ($($i:expr),*) => { $( if $i < want.len { vk_assert!(out.f[$i] == want.f[$i], "serialised subframe differs from the RFC 9639 coding of the structure"); } )* } }
    same!(0, 1, 2, 3, 4, 5, 6, 7, 8, 9, 10, 11, 12, 13, 14, 15);
}

// ------------------------------------------------------------------ structural residual parser: rejection rule (C17)
// contract: Residuals::from_reader => Err(InvalidPartitionOrder) for the concrete illegal layouts below
// (block not divisible, partitions not longer than the predictor order, more partitions than samples) —
// the frames the streaming decoder rejects too (K-res_total_*).  The individual partition parser is replaced
// by "returns an empty constant partition" so that a wrongly accepted layout is seen as Ok, not as a timeout.
fn stub_partition_from_reader<const RICE_MAX: u32, I: SignedInteger, R: BitRead + ?Sized>(_r: &mut R, partition_len: usize) -> Result<ResidualPartition<RICE_MAX, I>, Error> {
    Ok(ResidualPartition::Constant { partition_len })
}
macro_rules! k_struct_res_reject {
    ($name:ident, $block:expr, $order:expr, $po:expr) => {
        #[kani::proof]
        #[kani::unwind(10)]
        pub(crate) fn $name() {
            let mut tape: Tape<4> = Tape::new();
            tape.preload(K_U, 2, 0);
            tape.preload(K_U, 4, $po);
            tape.record = false;
            // the stream ends right after the partition order: a parser that wrongly goes on to read partitions
            // gets an I/O error at once (and so returns something other than InvalidPartitionOrder) instead of
            // dragging CBMC through the Vec-collecting partition loop
            tape.failed = true;
            let res = <Residuals<i32> as FromBitStreamUsing>::from_reader(&mut tape, ($block, $order));
            vk_assert!(matches!(res, Err(Error::InvalidPartitionOrder)), "structural parser accepted a partition order RFC 9639 9.2.7 forbids for this block");
        }
    };
}
k_struct_res_reject!(k_struct_res_reject_b4_o2_p1, 4usize, 2usize, 1);
k_struct_res_reject!(k_struct_res_reject_b16_o4_p2, 16usize, 4usize, 2);
k_struct_res_reject!(k_struct_res_reject_b6_o0_p2, 6usize, 0usize, 2);
k_struct_res_reject!(k_struct_res_reject_b2_o0_p2, 2usize, 0usize, 2);

// ---- Subframe::decode on constructed structural subframes (C17) -----------------------------------------
// The value is built directly (the structural *parser* does not finish in CBMC); the contract is the RFC's
// reconstruction: constant / verbatim samples and the restored FIXED samples, each shifted left by the
// wasted bits.  Shape (type, lengths, FIXED order, partition kinds) concrete per instance; all values.
fn next_or<I: Copy>(it: &mut dyn Iterator<Item = I>, d: I) -> (bool, I) {
    match it.next() {
        Some(v) => (true, v),
        None => (false, d),
    }
}

#[kani::proof]
#[kani::unwind(6)]
pub(crate) fn k_struct_decode_constant_verbatim() {
    let w: u32 = kani::any();
    kani::assume(w < 32);
    let c: i32 = kani::any();
    let sub = Subframe::<i32>::Constant { sample: c, block_size: 3, wasted_bps: w };
    {
        let mut it = sub.decode();
        let mut n = 0u32;
        let mut ok = true;
        while n < 4 {
            let (some, v) = next_or(&mut *it, 0);
            if !some { break; }
            ok &= v == c << w;
            n += 1;
        }
        vk_assert!(n == 3 && ok, "CONSTANT subframe decodes to block_size copies of the sample shifted by the wasted bits");
    }
    let a: i32 = kani::any();
    let b: i32 = kani::any();
    let sub = Subframe::<i32>::Verbatim { samples: vec![a, b], wasted_bps: w };
    let mut it = sub.decode();
    let (s0, v0) = next_or(&mut *it, 0);
    let (s1, v1) = next_or(&mut *it, 0);
    let (s2, _) = next_or(&mut *it, 0);
    vk_assert!(s0 && s1 && !s2 && v0 == a << w && v1 == b << w, "VERBATIM subframe decodes to its samples shifted by the wasted bits, in order, nothing more");
}

// FIXED / LPC subframes: built and removed -- `samples.extend(residuals.residuals())` through two layers of
// Box<dyn Iterator> + flat_map does not finish in CBMC even for one residual (400 s timeout; 4 residuals: out of memory).

// ---- structural read_subframe: a negative LPC shift is rejected, exactly as the streaming decoder does ----
// (the stream ends right after the shift so that a parser that wrongly goes on gets an I/O error at once)
macro_rules! k_struct_sub_lpc_shift {
    ($name:ident, $order:expr) => {
        #[kani::proof]
        #[kani::unwind(6)]
        pub(crate) fn $name() {
            let mut tape: Tape<10> = Tape::new();
            specenc::gen_subframe_header(&mut tape, specenc::t_lpc($order), false, 0);
            let mut i = 0;
            while i < $order {
                let wu: i16 = kani::any();
                tape.preload(K_S, 16, wu as i64 as u64);
                i += 1;
            }
            let precision: u8 = kani::any();
            kani::assume(precision < 15);
            tape.preload(K_U, 4, precision as u64);
            let shift: i8 = kani::any();
            kani::assume(shift >= -16 && shift <= 15);
            tape.preload(K_S, 5, shift as i64 as u64);
            tape.record = false;
            tape.failed = true;
            let res = <Subframe<i32> as FromBitStreamUsing>::from_reader(&mut tape, (16u16, SignedBitCount::new::<16>()));
            let neg = matches!(res, Err(Error::NegativeLpcShift));
            let io = matches!(res, Err(Error::Io(_)));
            std::mem::forget(res);
            vk_undecided!(!tape.shape_mismatch, "structural subframe parser read other fields than RFC 9639 9.2.6 lists before the shift");
            vk_assert!(neg == (shift < 0), "structural parser rejects an LPC subframe iff its 5-bit shift is negative (RFC 9639 9.2.6), like the streaming decoder");
            vk_assert!(neg || io, "a non-negative shift lets the parser go on to the coefficients (which are missing here)");
        }
    };
}
k_struct_sub_lpc_shift!(k_struct_sub_lpc_shift_o1, 1);
k_struct_sub_lpc_shift!(k_struct_sub_lpc_shift_o2, 2);

// ---- structural read_subframe on CONSTANT / VERBATIM subframes and its rejections -------------------------
macro_rules! k_struct_sub_parse_simple {
    ($name:ident, $has_wasted:expr) => {
        #[kani::proof]
        #[kani::unwind(6)]
        pub(crate) fn $name() {
            const BPS: u32 = 12;
            let wasted: u32 = if $has_wasted { kani::any() } else { 0 };
            if $has_wasted { kani::assume(wasted >= 1 && wasted < BPS); }
            let eff = BPS - wasted;
            let v: [i16; 3] = kani::any();
            let fits = |x: i16| (x as i64) >= -(1i64 << (eff - 1)) && (x as i64) < (1i64 << (eff - 1));
            kani::assume(fits(v[0]) && fits(v[1]) && fits(v[2]));
            // CONSTANT
            {
                let mut tape: Tape<8> = Tape::new();
                specenc::gen_subframe_header(&mut tape, specenc::T_CONSTANT, $has_wasted, wasted);
                tape.preload(K_S, eff, v[0] as i64 as u64);
                tape.record = false;
                tape.failed = true;
                let res = <Subframe<i32> as FromBitStreamUsing>::from_reader(&mut tape, (3u16, SignedBitCount::new::<BPS>()));
                let ok = matches!(&res, Ok(Subframe::Constant { sample, block_size: 3, wasted_bps }) if *sample == v[0] as i32 && *wasted_bps == wasted);
                std::mem::forget(res);
                vk_undecided!(!tape.shape_mismatch, "structural parser read other fields than RFC 9639 9.2.3 lists");
                vk_assert!(ok && tape.consumed_all(), "structural parser: CONSTANT subframe = one sample of (bps - wasted) bits, block size from the frame header, wasted bits kept");
            }
            // VERBATIM
            let mut tape: Tape<10> = Tape::new();
            specenc::gen_subframe_header(&mut tape, specenc::T_VERBATIM, $has_wasted, wasted);
            tape.preload(K_S, eff, v[0] as i64 as u64);
            tape.preload(K_S, eff, v[1] as i64 as u64);
            tape.preload(K_S, eff, v[2] as i64 as u64);
            tape.record = false;
            tape.failed = true;
            let res = <Subframe<i32> as FromBitStreamUsing>::from_reader(&mut tape, (3u16, SignedBitCount::new::<BPS>()));
            let ok = match &res {
                Ok(Subframe::Verbatim { samples, wasted_bps }) => samples.len() == 3 && samples[0] == v[0] as i32 && samples[1] == v[1] as i32 && samples[2] == v[2] as i32 && *wasted_bps == wasted,
                _ => false,
            };
            std::mem::forget(res);
            vk_undecided!(!tape.shape_mismatch, "structural parser read other fields than RFC 9639 9.2.4 lists");
            vk_assert!(ok && tape.consumed_all(), "structural parser: VERBATIM subframe = block-size samples of (bps - wasted) bits in order, wasted bits kept");
        }
    };
}
k_struct_sub_parse_simple!(k_struct_sub_parse_simple_nowaste, false);
k_struct_sub_parse_simple!(k_struct_sub_parse_simple_wasted, true);

#[kani::proof]
#[kani::unwind(6)]
pub(crate) fn k_struct_sub_rejects() {
    // (reserved type codes and the pad bit are rejected by SubframeHeader::from_reader, which the streaming decoder shares: K-sub_total_*)
    // wasted bits
    let k: u32 = kani::any();
    kani::assume(k >= 1 && k <= 20);
    let mut tape: Tape<8> = Tape::new();
    specenc::gen_subframe_header(&mut tape, specenc::T_VERBATIM, true, k);
    tape.record = false;
    tape.failed = true;
    let res = <Subframe<i32> as FromBitStreamUsing>::from_reader(&mut tape, (16u16, SignedBitCount::new::<12>()));
    let excessive = matches!(res, Err(Error::ExcessiveWastedBits));
    std::mem::forget(res);
    vk_assert!(excessive == (k >= 12), "structural parser rejects a wasted-bits count that leaves no bit for the samples, and only that");

    // QLP precision code 0b1111 is invalid
    let p: u8 = kani::any();
    kani::assume(p < 16);
    let mut tape: Tape<8> = Tape::new();
    specenc::gen_subframe_header(&mut tape, specenc::t_lpc(1), false, 0);
    tape.preload(K_S, 16, 5);
    tape.preload(K_U, 4, p as u64);
    tape.record = false;
    tape.failed = true;
    let res = <Subframe<i32> as FromBitStreamUsing>::from_reader(&mut tape, (16u16, SignedBitCount::new::<16>()));
    let badp = matches!(res, Err(Error::InvalidQlpPrecision));
    std::mem::forget(res);
    vk_assert!(badp == (p == 15), "structural parser rejects exactly the reserved QLP precision code 1111 (RFC 9639 9.2.6)");
}

// ---- structural read_subframe on a FIXED subframe: fields == RFC 9639 9.2.5 ----
macro_rules! k_struct_sub_parse_fixed {
    ($name:ident, $order:expr, $n:expr, $kind:expr) => {
        #[kani::proof]
        #[kani::unwind(8)]
        pub(crate) fn $name() {
            const BPS: u32 = 12;
            const ORDER: usize = $order;
            const N: usize = $n; // residuals
            let wu: [i16; 4] = kani::any();
            let res: [i32; 4] = kani::any();
            let param: u32 = kani::any();
            kani::assume(param <= 31);
            let mut r64 = [0i64; 4];
            let mut i = 0;
            while i < 4 { r64[i] = res[i] as i64; kani::assume(wu[i] >= -2048 && wu[i] < 2048); i += 1; }
            kani::assume(specenc::partition_valid($kind, 0, param, &r64[..N]));
            let mut tape: Tape<24> = Tape::new();
            specenc::gen_subframe_header(&mut tape, specenc::t_fixed(ORDER as u32), false, 0);
            let mut i = 0;
            while i < ORDER { tape.preload(K_S, BPS, wu[i] as i64 as u64); i += 1; }
            specenc::gen_residuals(&mut tape, 0, 0, ORDER, &r64[..N], &[$kind], &[param]);
            tape.record = false;
            tape.failed = true;
            let out = <Subframe<i32> as FromBitStreamUsing>::from_reader(&mut tape, ((ORDER + N) as u16, SignedBitCount::new::<BPS>()));
            let ok = match &out {
                Ok(Subframe::Fixed { order, warm_up, residuals: Residuals::Method0 { partitions }, wasted_bps }) => {
                    let mut ok = *order as usize == ORDER && warm_up.len() == ORDER && *wasted_bps == 0 && partitions.len() == 1;
                    let mut i = 0;
                    while i < ORDER { ok = ok && warm_up.len() > i && warm_up[i] == wu[i] as i32; i += 1; }
                    if partitions.len() == 1 {
                        ok = ok && match &partitions[0] {
                            ResidualPartition::Standard { rice, residuals } => matches!($kind, specenc::PKind::Rice) && u32::from(*rice) == param && residuals.len() == N && { let mut e = true; let mut j = 0; while j < N { e = e && residuals.len() > j && residuals[j] == res[j]; j += 1; } e },
                            ResidualPartition::Escaped { escape_size, residuals } => matches!($kind, specenc::PKind::Escape) && u32::from(*escape_size) == param && residuals.len() == N && { let mut e = true; let mut j = 0; while j < N { e = e && residuals.len() > j && residuals[j] == res[j]; j += 1; } e },
                            ResidualPartition::Constant { partition_len } => matches!($kind, specenc::PKind::Zero) && *partition_len == N,
                        };
                    }
                    ok
                }
                _ => false,
            };
            std::mem::forget(out);
            vk_undecided!(!tape.shape_mismatch && !tape.overflow, "structural parser read other fields than RFC 9639 9.2.5 / 9.2.7 list");
            vk_assert!(ok && tape.consumed_all(), "structural parser: FIXED subframe = warm-up samples then one residual partition whose kind, parameter and residuals are those coded (RFC 9639 9.2.5, 9.2.7)");
        }
    };
}
k_struct_sub_parse_fixed!(k_struct_sub_parse_fixed_o1_rice2, 1, 2, specenc::PKind::Rice);
k_struct_sub_parse_fixed!(k_struct_sub_parse_fixed_o2_esc2, 2, 2, specenc::PKind::Escape);
k_struct_sub_parse_fixed!(k_struct_sub_parse_fixed_o0_zero3, 0, 3, specenc::PKind::Zero);

// ---- structural read_subframe on an LPC subframe (order 1) and on a two-partition FIXED subframe ----
#[kani::proof]
#[kani::unwind(8)]
pub(crate) fn k_struct_sub_parse_lpc_o1_rice2() {
    const BPS: u32 = 12;
    let wu: i16 = kani::any();
    kani::assume(wu >= -2048 && wu < 2048);
    let res: [i32; 2] = kani::any();
    let r64 = [res[0] as i64, res[1] as i64];
    let param: u32 = kani::any();
    kani::assume(param <= 31);
    kani::assume(specenc::partition_valid(specenc::PKind::Rice, 0, param, &r64));
    let precision: u32 = kani::any();
    kani::assume(precision >= 1 && precision <= 15);
    let shift: u32 = kani::any();
    kani::assume(shift <= 15);
    let coeff: i16 = kani::any();
    kani::assume(spec::fits(coeff as i64, precision));
    let mut tape: Tape<24> = Tape::new();
    specenc::gen_subframe_header(&mut tape, specenc::t_lpc(1), false, 0);
    tape.preload(K_S, BPS, wu as i64 as u64);
    tape.preload(K_U, 4, (precision - 1) as u64);
    tape.preload(K_S, 5, shift as u64);
    tape.preload(K_S, precision, coeff as i64 as u64);
    specenc::gen_residuals(&mut tape, 0, 0, 1, &r64, &[specenc::PKind::Rice], &[param]);
    tape.record = false;
    tape.failed = true;
    let out = <Subframe<i32> as FromBitStreamUsing>::from_reader(&mut tape, (3u16, SignedBitCount::new::<BPS>()));
    let ok = match &out {
        Ok(Subframe::Lpc { order, warm_up, precision: p, shift: s, coefficients, residuals: Residuals::Method0 { partitions }, wasted_bps }) => {
            order.get() == 1 && warm_up.len() == 1 && warm_up[0] == wu as i32 && u32::from(*p) == precision && *s == shift
                && coefficients.len() == 1 && coefficients[0] == coeff as i32 && *wasted_bps == 0 && partitions.len() == 1
                && match &partitions[0] {
                    ResidualPartition::Standard { rice, residuals } => u32::from(*rice) == param && residuals.len() == 2 && residuals[0] == res[0] && residuals[1] == res[1],
                    _ => false,
                }
        }
        _ => false,
    };
    std::mem::forget(out);
    vk_undecided!(!tape.shape_mismatch && !tape.overflow, "structural parser read other fields than RFC 9639 9.2.6 / 9.2.7 list");
    vk_assert!(ok && tape.consumed_all(), "structural parser: LPC subframe = warm-up, precision - 1, shift, coefficients, residual partition, each field as coded (RFC 9639 9.2.6)");
}

// a two-partition instance (block 4, order 1, partition order 1, Escape + Rice) was built and removed: CBMC runs out of memory
// in the nested collect::<Result<Vec<_>, _>>() of the partition loop; the partition-length rule is covered by K-struct_res_reject_*
// (illegal orders) and, for the decoder that shares the rule, by K-res_valid_*.
