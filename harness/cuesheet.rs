// harnesses for crate::cuesheet (child module: sees private items)
#![allow(dead_code, unused_imports)]
use super::*;
use crate::verif_k::{vk_assert, vk_undecided};

// ---- CDDAOffset::from_str (C12: cue sheet offset arithmetic) ----
// contract: for every text MM:SS:FF made of decimal digits (shape -- the number of digits per field -- concrete per
// instance, digits symbolic): never panics; Ok iff SS < 60, FF < 75 and the sample offset fits 64 bits, and then the
// offset is ((MM*60 + SS)*75 + FF) * 588
macro_rules! k_cdda_offset_from_str {
    ($name:ident, $mm_digits:expr, $unw:expr) => {
        #[kani::proof]
        #[kani::unwind($unw)]
        pub(crate) fn $name() {
            const M: usize = $mm_digits;
            let mut b = [0u8; M + 6];
            let mut mm: u128 = 0;
            let mut i = 0;
            while i < M {
                let d: u8 = kani::any();
                kani::assume(d <= 9);
                b[i] = b'0' + d;
                mm = mm * 10 + d as u128;
                i += 1;
            }
            let (s1, s0, f1, f0): (u8, u8, u8, u8) = kani::any();
            kani::assume(s1 <= 9 && s0 <= 9 && f1 <= 9 && f0 <= 9);
            b[M] = b':';
            b[M + 1] = b'0' + s1;
            b[M + 2] = b'0' + s0;
            b[M + 3] = b':';
            b[M + 4] = b'0' + f1;
            b[M + 5] = b'0' + f0;
            let ss = (s1 * 10 + s0) as u128;
            let ff = (f1 * 10 + f0) as u128;
            let s = match std::str::from_utf8(&b) {
                Ok(s) => s,
                Err(_) => { vk_undecided!(false, "ASCII digits are UTF-8"); return; }
            };
            let r = CDDAOffset::from_str(s);
            let want = ((mm * 60 + ss) * 75 + ff) * 588;
            let valid = ss < 60 && ff < 75 && mm <= u64::MAX as u128 && want <= u64::MAX as u128;
            match r {
                Ok(o) => vk_assert!(valid && o.offset as u128 == want, "CDDAOffset::from_str: MM:SS:FF is ((MM*60+SS)*75+FF)*588 samples, accepted only when SS < 60, FF < 75 and the result fits 64 bits"),
                Err(()) => vk_assert!(!valid, "CDDAOffset::from_str rejected a well-formed MM:SS:FF"),
            }
        }
    };
}
k_cdda_offset_from_str!(k_cdda_offset_from_str_m2, 2, 10);
// measured: 14 and 20 symbolic minute digits (where the arithmetic can overflow) time out; the overflow region is
// covered by concrete extremes instead

// (built and removed: a list of concrete extreme texts such as "4099276460824345:00:00" -- even one concrete 22-character text
// does not finish in 10 min: std's str searching over a literal is not constant-folded by CBMC.  The overflow of
// mm * 75 * 60 for minutes >= 4.1e15 is therefore NOT decided; see DESIGN.md section 6, unrepaired defects.)

// ---- CDDAOffset::from_str: the arithmetic on the three parsed numbers never overflows (C12) ----
// The decimal parser of std is replaced by an oracle (any u64, or a parse error): with a short concrete text the
// splitting is cheap and the three numbers range over all of u64, which is where the overflow lives.
fn stub_u64_from_str(_s: &str) -> Result<u64, std::num::ParseIntError> {
    if kani::any() {
        Ok(kani::any())
    } else {
        "x".parse::<u8>().map(|v| v as u64)
    }
}
#[kani::proof]
#[kani::unwind(12)]
#[kani::stub(<u64 as std::str::FromStr>::from_str, stub_u64_from_str)]
pub(crate) fn k_cdda_offset_arith_total() {
    let r = CDDAOffset::from_str("1:2:3");
    if let Ok(o) = r {
        vk_assert!(o.offset % 588 == 0, "an accepted offset is a whole number of CD sectors");
    }
}
