// Executable RFC 9639 reference for residuals / subframes on tiny blocks, written
// against the bit-stream contract only (no code shared with the crate).  It is
// the postcondition of the decode-side contracts: real result == reference.
use super::bits::BitBuf;
use super::spec;
use super::tape::Tape;
use bitstream_io::BitRead;

/// what a reference decoder needs from a stream
pub(crate) trait Src {
    fn u(&mut self, n: u32) -> Option<u64>;
    fn s(&mut self, n: u32) -> Option<i64>;
    fn unary1(&mut self) -> Option<u32>;
}

impl<const N: usize> Src for Tape<N> {
    fn u(&mut self, n: u32) -> Option<u64> {
        Tape::u(self, n)
    }
    fn s(&mut self, n: u32) -> Option<i64> {
        Tape::s(self, n)
    }
    fn unary1(&mut self) -> Option<u32> {
        Tape::unary1(self)
    }
}

impl<const L: usize> Src for BitBuf<L> {
    fn u(&mut self, n: u32) -> Option<u64> {
        self.take(n).ok()
    }
    fn s(&mut self, n: u32) -> Option<i64> {
        let raw = self.take(n).ok()?;
        let sh = 64 - n;
        Some(((raw << sh) as i64) >> sh)
    }
    fn unary1(&mut self) -> Option<u32> {
        self.read_unary::<1>().ok()
    }
}

pub(crate) const MAXN: usize = 8;

#[derive(Copy, Clone, PartialEq, Eq, Debug)]
pub(crate) enum Verdict {
    /// the stream is valid here and decodes to the values written to `out`
    Valid,
    /// RFC says a decoder must not accept this (reserved code, impossible layout, truncated)
    MustReject,
    /// outside the format's guarantees (values that cannot come from PCM of the stated width);
    /// a decoder may accept or reject, but must not panic
    DontCare,
}

/// §9.2.7: coded residual; `n` residuals belong to a block of `n + order` samples
pub(crate) fn ref_residuals<B: Src>(
    b: &mut B,
    order: u32,
    n: usize,
    out: &mut [i64; MAXN],
) -> Verdict {
    let method = match b.u(2) {
        Some(m) => m,
        None => return Verdict::MustReject,
    };
    if method > 1 {
        return Verdict::MustReject;
    }
    let pbits = if method == 0 { 4 } else { 5 };
    let esc = if method == 0 { 15 } else { 31 };
    let po = match b.u(4) {
        Some(p) => p as u32,
        None => return Verdict::MustReject,
    };
    let bs = n as u32 + order;
    if !spec::part_ok(bs, order, po) {
        return Verdict::MustReject;
    }
    let mut dontcare = false;
    let mut k = 0usize; // next residual index
    let mut part = 0u32;
    while part < (1u32 << po) {
        let plen = spec::part_len(bs, order, po, part);
        let param = match b.u(pbits) {
            Some(p) => p as u32,
            None => return Verdict::MustReject,
        };
        if param == esc {
            let width = match b.u(5) {
                Some(w) => w as u32,
                None => return Verdict::MustReject,
            };
            let mut j = 0;
            while j < plen {
                if width == 0 {
                    out[k] = 0;
                } else {
                    out[k] = match b.s(width) {
                        Some(v) => v,
                        None => return Verdict::MustReject,
                    };
                }
                k += 1;
                j += 1;
            }
        } else {
            let mut j = 0;
            while j < plen {
                let msb = match b.unary1() {
                    Some(m) => m as u64,
                    None => return Verdict::MustReject,
                };
                let lsb = match b.u(param) {
                    Some(l) => l,
                    None => return Verdict::MustReject,
                };
                let folded = (msb << param) | lsb;
                if folded > u32::MAX as u64 {
                    // residual does not fit 32 bits: not producible from valid PCM
                    dontcare = true;
                }
                out[k] = spec::unzigzag(folded);
                if out[k] == i32::MIN as i64 {
                    dontcare = true; // RFC: most negative 32-bit value is not allowed as a residual
                }
                k += 1;
                j += 1;
            }
        }
        part += 1;
    }
    if dontcare { Verdict::DontCare } else { Verdict::Valid }
}

/// restore samples: x[i] = r[i] + (sum_j c[j]*x[i-1-j] >> shift); `c[j]` for j < order.
/// Returns false when an intermediate leaves the range a valid stream of `bps` bits can produce.
pub(crate) fn ref_restore(
    x: &mut [i64; MAXN],
    n: usize,
    order: usize,
    coeff: &[i64; 32],
    shift: u32,
    bps: u32,
) -> bool {
    let mut ok = true;
    let mut i = order;
    while i < n {
        let mut sum: i128 = 0;
        let mut j = 0;
        while j < order {
            sum += (coeff[j] as i128) * (x[i - 1 - j] as i128);
            j += 1;
        }
        let pred = sum >> shift;
        let v = x[i] as i128 + pred;
        if v < -(1i128 << (bps - 1)) || v > (1i128 << (bps - 1)) - 1 {
            ok = false;
        }
        x[i] = v as i64;
        i += 1;
    }
    ok
}
