// RFC 9639 stream *generator*: writes, field by field, the coding the RFC
// prescribes for given values and given syntactic choices.  Used as
//   * the precondition side of decoder contracts ("for every stream that is valid
//     by construction the decoder returns the values it was built from"), and
//   * the postcondition side of encoder contracts ("the fields the encoder wrote
//     are the RFC coding of what it was given, for the parameters it chose").
// Written from the RFC; shares no code with the crate.
use super::spec;
use super::tape::{Tape, K_S, K_U, K_UN1};

#[derive(Copy, Clone, PartialEq, Eq)]
pub(crate) enum PKind {
    /// Rice-coded with a parameter below the escape code
    Rice,
    /// escape code followed by a 5-bit width in 1..=31 and raw two's complement residuals
    Escape,
    /// escape code with width 0: all residuals are zero and nothing else is stored
    Zero,
}

/// validity of one partition's content under the RFC (what "valid by construction" assumes)
pub(crate) fn partition_valid(kind: PKind, method: u32, param: u32, res: &[i64]) -> bool {
    let esc = if method == 0 { 15 } else { 31 };
    let mut ok = true;
    let mut i = 0;
    while i < res.len() {
        let r = res[i];
        // residuals are 32-bit two's complement, most negative value excluded (RFC 9639 §9.2.7.3)
        ok = ok && r > i32::MIN as i64 && r <= i32::MAX as i64;
        match kind {
            PKind::Rice => {
                ok = ok && param < esc && (spec::zigzag(r) >> param) <= u32::MAX as u64;
            }
            PKind::Escape => {
                ok = ok && param >= 1 && param <= 31 && spec::fits(r, param);
            }
            PKind::Zero => {
                ok = ok && r == 0;
            }
        }
        i += 1;
    }
    ok
}

/// §9.2.7.1/2: one partition
pub(crate) fn gen_partition<const N: usize>(t: &mut Tape<N>, kind: PKind, method: u32, param: u32, res: &[i64]) {
    let pbits = if method == 0 { 4 } else { 5 };
    let esc: u64 = if method == 0 { 15 } else { 31 };
    match kind {
        PKind::Rice => {
            t.preload(K_U, pbits, param as u64);
            let mut i = 0;
            while i < res.len() {
                let folded = spec::zigzag(res[i]);
                t.preload(K_UN1, 0, folded >> param);
                t.preload(K_U, param, folded & ((1u64 << param) - 1));
                i += 1;
            }
        }
        PKind::Escape => {
            t.preload(K_U, pbits, esc);
            t.preload(K_U, 5, param as u64);
            let mut i = 0;
            while i < res.len() {
                t.preload(K_S, param, res[i] as u64);
                i += 1;
            }
        }
        PKind::Zero => {
            t.preload(K_U, pbits, esc);
            t.preload(K_U, 5, 0);
        }
    }
}

/// §9.2.7: coded residual of a block of `order + res.len()` samples
pub(crate) fn gen_residuals<const N: usize>(
    t: &mut Tape<N>,
    method: u32,
    po: u32,
    order: usize,
    res: &[i64],
    kinds: &[PKind],
    params: &[u32],
) {
    let bs = (order + res.len()) as u32;
    t.preload(K_U, 2, method as u64);
    t.preload(K_U, 4, po as u64);
    let mut start = 0usize;
    let mut p = 0u32;
    while p < (1u32 << po) {
        let len = spec::part_len(bs, order as u32, po, p) as usize;
        gen_partition(t, kinds[p as usize], method, params[p as usize], &res[start..start + len]);
        start += len;
        p += 1;
    }
}

pub(crate) fn residuals_valid(method: u32, po: u32, order: usize, res: &[i64], kinds: &[PKind], params: &[u32]) -> bool {
    let bs = (order + res.len()) as u32;
    if !(method <= 1 && spec::part_ok(bs, order as u32, po)) {
        return false;
    }
    let mut ok = true;
    let mut start = 0usize;
    let mut p = 0u32;
    while p < (1u32 << po) {
        let len = spec::part_len(bs, order as u32, po, p) as usize;
        ok = ok && partition_valid(kinds[p as usize], method, params[p as usize], &res[start..start + len]);
        start += len;
        p += 1;
    }
    ok
}

// ---------------------------------------------------------------- subframes (RFC 9639 §9.2)

pub(crate) const T_CONSTANT: u64 = 0b000000;
pub(crate) const T_VERBATIM: u64 = 0b000001;
pub(crate) fn t_fixed(order: u32) -> u64 {
    0b001000 + order as u64
}
pub(crate) fn t_lpc(order: u32) -> u64 {
    0b100000 + (order as u64 - 1)
}

/// §9.2.1/§9.2.2: zero pad bit, 6-bit type, wasted-bits flag, unary(k-1) when k > 0.
/// `has_wasted` fixes the field layout; `wasted` (>= 1 when has_wasted) is a value.
pub(crate) fn gen_subframe_header<const N: usize>(t: &mut Tape<N>, type_code: u64, has_wasted: bool, wasted: u32) {
    t.preload(K_U, 1, 0);
    t.preload(K_U, 6, type_code);
    if has_wasted {
        t.preload(K_U, 1, 1);
        t.preload(K_UN1, 0, (wasted - 1) as u64);
    } else {
        t.preload(K_U, 1, 0);
    }
}

/// residual of x[i] under the predictor (Σ c[j]·x[i-1-j]) >> shift, i >= order
pub(crate) fn spec_residual(x: &[i64], i: usize, order: usize, coeff: &[i64], shift: u32) -> i64 {
    let mut sum: i64 = 0;
    let mut j = 0;
    while j < order {
        // operand order (sample * coefficient): SAT solvers cannot prove 64-bit multiplier
        // commutativity, so the reference multiplies the way the RFC pseudo-code and every
        // implementation does
        sum += x[i - 1 - j] * coeff[j];
        j += 1;
    }
    x[i] - (sum >> shift)
}

/// §9.2.5 fixed predictor subframe body (after the header): warm-up samples then coded residual.
/// Returns false when the residuals are not valid 32-bit residuals for the chosen coding.
pub(crate) fn gen_predicted<const N: usize>(
    t: &mut Tape<N>,
    bps: u32,
    order: usize,
    coeff: &[i64],
    shift: u32,
    lpc: Option<(u32, u32)>, // (precision, shift) written for LPC subframes
    x: &[i64],
    method: u32,
    po: u32,
    kinds: &[PKind],
    params: &[u32],
) -> bool {
    let mut i = 0;
    while i < order {
        t.preload(K_S, bps, x[i] as u64);
        i += 1;
    }
    if let Some((precision, sh)) = lpc {
        t.preload(K_U, 4, (precision - 1) as u64);
        t.preload(K_S, 5, sh as u64);
        let mut j = 0;
        while j < order {
            t.preload(K_S, precision, coeff[j] as u64);
            j += 1;
        }
    }
    let mut res = [0i64; 8];
    let n = x.len() - order;
    let mut i = 0;
    while i < n {
        res[i] = spec_residual(x, order + i, order, coeff, shift);
        i += 1;
    }
    let ok = residuals_valid(method, po, order, &res[..n], kinds, params);
    gen_residuals(t, method, po, order, &res[..n], kinds, params);
    ok
}

pub(crate) fn fixed_coeffs(order: usize) -> [i64; 4] {
    let mut c = [0i64; 4];
    let mut j = 0;
    while j < order {
        c[j] = spec::fixed_coeff(order as u32, j as u32);
        j += 1;
    }
    c
}
