// RFC 9639 stream *generator*: writes, field by field, the coding the RFC
// prescribes for given values and given syntactic choices.  Used as
//   * the precondition side of decoder contracts ("for every stream that is valid
//     by construction the decoder returns the values it was built from"), and
//   * the postcondition side of encoder contracts ("the fields the encoder wrote
//     are the RFC coding of what it was given, for the parameters it chose").
// Written from the RFC; shares no code with the crate.
use super::spec;
use super::tape::{Tape, K_S, K_U, K_UN1};

#[derive(Copy, Clone, PartialEq, Eq)]
pub(crate) enum PKind {
    /// Rice-coded with a parameter below the escape code
    Rice,
    /// escape code followed by a 5-bit width in 1..=31 and raw two's complement residuals
    Escape,
    /// escape code with width 0: all residuals are zero and nothing else is stored
    Zero,
}

/// validity of one partition's content under the RFC (what "valid by construction" assumes)
pub(crate) fn partition_valid(kind: PKind, method: u32, param: u32, res: &[i64]) -> bool {
    let esc = if method == 0 { 15 } else { 31 };
    let mut ok = true;
    let mut i = 0;
    while i < res.len() {
        let r = res[i];
        // residuals are 32-bit two's complement, most negative value excluded (RFC 9639 §9.2.7.3)
        ok = ok && r > i32::MIN as i64 && r <= i32::MAX as i64;
        match kind {
            PKind::Rice => {
                ok = ok && param < esc && (spec::zigzag(r) >> param) <= u32::MAX as u64;
            }
            PKind::Escape => {
                ok = ok && param >= 1 && param <= 31 && spec::fits(r, param);
            }
            PKind::Zero => {
                ok = ok && r == 0;
            }
        }
        i += 1;
    }
    ok
}

/// §9.2.7.1/2: one partition
pub(crate) fn gen_partition<const N: usize>(t: &mut Tape<N>, kind: PKind, method: u32, param: u32, res: &[i64]) {
    let pbits = if method == 0 { 4 } else { 5 };
    let esc: u64 = if method == 0 { 15 } else { 31 };
    match kind {
        PKind::Rice => {
            t.preload(K_U, pbits, param as u64);
            let mut i = 0;
            while i < res.len() {
                let folded = spec::zigzag(res[i]);
                t.preload(K_UN1, 0, folded >> param);
                t.preload(K_U, param, folded & ((1u64 << param) - 1));
                i += 1;
            }
        }
        PKind::Escape => {
            t.preload(K_U, pbits, esc);
            t.preload(K_U, 5, param as u64);
            let mut i = 0;
            while i < res.len() {
                t.preload(K_S, param, res[i] as u64);
                i += 1;
            }
        }
        PKind::Zero => {
            t.preload(K_U, pbits, esc);
            t.preload(K_U, 5, 0);
        }
    }
}

/// §9.2.7: coded residual of a block of `order + res.len()` samples
pub(crate) fn gen_residuals<const N: usize>(
    t: &mut Tape<N>,
    method: u32,
    po: u32,
    order: usize,
    res: &[i64],
    kinds: &[PKind],
    params: &[u32],
) {
    let bs = (order + res.len()) as u32;
    t.preload(K_U, 2, method as u64);
    t.preload(K_U, 4, po as u64);
    let mut start = 0usize;
    let mut p = 0u32;
    while p < (1u32 << po) {
        let len = spec::part_len(bs, order as u32, po, p) as usize;
        gen_partition(t, kinds[p as usize], method, params[p as usize], &res[start..start + len]);
        start += len;
        p += 1;
    }
}

pub(crate) fn residuals_valid(method: u32, po: u32, order: usize, res: &[i64], kinds: &[PKind], params: &[u32]) -> bool {
    let bs = (order + res.len()) as u32;
    if !(method <= 1 && spec::part_ok(bs, order as u32, po)) {
        return false;
    }
    let mut ok = true;
    let mut start = 0usize;
    let mut p = 0u32;
    while p < (1u32 << po) {
        let len = spec::part_len(bs, order as u32, po, p) as usize;
        ok = ok && partition_valid(kinds[p as usize], method, params[p as usize], &res[start..start + len]);
        start += len;
        p += 1;
    }
    ok
}
