// Shared executable specification functions, written from RFC 9639 and the
// property statements — not from the crate's code.  Plain integer Rust in the
// subset that rustc, Kani and (after mechanical wrapping) Verus accept.
#![allow(dead_code)]

// ---------------------------------------------------------------- CRC (RFC 9639 §9.1.8, §9.3)

/// CRC-8, polynomial x^8 + x^2 + x + 1 (0x07), MSB first, one input byte
pub fn crc8_step(state: u8, byte: u8) -> u8 {
    let mut s = state ^ byte;
    s = if s & 0x80 != 0 { (s << 1) ^ 0x07 } else { s << 1 };
    s = if s & 0x80 != 0 { (s << 1) ^ 0x07 } else { s << 1 };
    s = if s & 0x80 != 0 { (s << 1) ^ 0x07 } else { s << 1 };
    s = if s & 0x80 != 0 { (s << 1) ^ 0x07 } else { s << 1 };
    s = if s & 0x80 != 0 { (s << 1) ^ 0x07 } else { s << 1 };
    s = if s & 0x80 != 0 { (s << 1) ^ 0x07 } else { s << 1 };
    s = if s & 0x80 != 0 { (s << 1) ^ 0x07 } else { s << 1 };
    s = if s & 0x80 != 0 { (s << 1) ^ 0x07 } else { s << 1 };
    s
}

/// CRC-16, polynomial x^16 + x^15 + x^2 + 1 (0x8005), MSB first, one input byte
pub fn crc16_step(state: u16, byte: u8) -> u16 {
    let mut s = state ^ ((byte as u16) << 8);
    s = if s & 0x8000 != 0 { (s << 1) ^ 0x8005 } else { s << 1 };
    s = if s & 0x8000 != 0 { (s << 1) ^ 0x8005 } else { s << 1 };
    s = if s & 0x8000 != 0 { (s << 1) ^ 0x8005 } else { s << 1 };
    s = if s & 0x8000 != 0 { (s << 1) ^ 0x8005 } else { s << 1 };
    s = if s & 0x8000 != 0 { (s << 1) ^ 0x8005 } else { s << 1 };
    s = if s & 0x8000 != 0 { (s << 1) ^ 0x8005 } else { s << 1 };
    s = if s & 0x8000 != 0 { (s << 1) ^ 0x8005 } else { s << 1 };
    s = if s & 0x8000 != 0 { (s << 1) ^ 0x8005 } else { s << 1 };
    s
}
