// Shared executable specification functions, written from RFC 9639 and the
// property statements — not from the crate's code.  Plain integer Rust in the
// subset that rustc, Kani and (after mechanical wrapping) Verus accept.
#![allow(dead_code)]

// ---------------------------------------------------------------- CRC (RFC 9639 §9.1.8, §9.3)

/// CRC-8, polynomial x^8 + x^2 + x + 1 (0x07), MSB first, one input byte
pub fn crc8_step(state: u8, byte: u8) -> u8 {
    let mut s = state ^ byte;
    s = if s & 0x80 != 0 { (s << 1) ^ 0x07 } else { s << 1 };
    s = if s & 0x80 != 0 { (s << 1) ^ 0x07 } else { s << 1 };
    s = if s & 0x80 != 0 { (s << 1) ^ 0x07 } else { s << 1 };
    s = if s & 0x80 != 0 { (s << 1) ^ 0x07 } else { s << 1 };
    s = if s & 0x80 != 0 { (s << 1) ^ 0x07 } else { s << 1 };
    s = if s & 0x80 != 0 { (s << 1) ^ 0x07 } else { s << 1 };
    s = if s & 0x80 != 0 { (s << 1) ^ 0x07 } else { s << 1 };
    s = if s & 0x80 != 0 { (s << 1) ^ 0x07 } else { s << 1 };
    s
}

/// CRC-16, polynomial x^16 + x^15 + x^2 + 1 (0x8005), MSB first, one input byte
pub fn crc16_step(state: u16, byte: u8) -> u16 {
    let mut s = state ^ ((byte as u16) << 8);
    s = if s & 0x8000 != 0 { (s << 1) ^ 0x8005 } else { s << 1 };
    s = if s & 0x8000 != 0 { (s << 1) ^ 0x8005 } else { s << 1 };
    s = if s & 0x8000 != 0 { (s << 1) ^ 0x8005 } else { s << 1 };
    s = if s & 0x8000 != 0 { (s << 1) ^ 0x8005 } else { s << 1 };
    s = if s & 0x8000 != 0 { (s << 1) ^ 0x8005 } else { s << 1 };
    s = if s & 0x8000 != 0 { (s << 1) ^ 0x8005 } else { s << 1 };
    s = if s & 0x8000 != 0 { (s << 1) ^ 0x8005 } else { s << 1 };
    s = if s & 0x8000 != 0 { (s << 1) ^ 0x8005 } else { s << 1 };
    s
}

// ---------------------------------------------------------------- residual coding (RFC 9639 §9.2.7)

/// Rice "zig-zag" folding of a signed residual into an unsigned code
pub fn zigzag(r: i64) -> u64 {
    if r < 0 { ((-(r + 1)) as u64) * 2 + 1 } else { (r as u64) * 2 }
}

/// inverse of `zigzag`
pub fn unzigzag(u: u64) -> i64 {
    if u % 2 == 1 { -((u / 2) as i64) - 1 } else { (u / 2) as i64 }
}

/// partition order `po` is legal for a block of `bs` samples predicted with `order` warm-up samples:
/// the block divides evenly and every partition is longer than the predictor order allows the first to be
pub fn part_ok(bs: u32, order: u32, po: u32) -> bool {
    po <= 15 && bs % (1u32 << po) == 0 && (bs >> po) > order
}

/// number of residuals in partition `i` (0-based) — only meaningful when `part_ok`
pub fn part_len(bs: u32, order: u32, po: u32, i: u32) -> u32 {
    if i == 0 { (bs >> po) - order } else { bs >> po }
}

// ---------------------------------------------------------------- prediction (RFC 9639 §9.2.5, §9.2.6)

/// coefficients of the fixed predictors, most recent sample first
pub fn fixed_coeff(order: u32, j: u32) -> i64 {
    match (order, j) {
        (1, 0) => 1,
        (2, 0) => 2,
        (2, 1) => -1,
        (3, 0) => 3,
        (3, 1) => -3,
        (3, 2) => 1,
        (4, 0) => 4,
        (4, 1) => -6,
        (4, 2) => 4,
        (4, 3) => -1,
        _ => 0,
    }
}

// ---------------------------------------------------------------- stereo decorrelation (RFC 9639 §4.2)

pub fn side_of(l: i64, r: i64) -> i64 { l - r }
pub fn mid_of(l: i64, r: i64) -> i64 { (l + r) >> 1 }
/// left/side -> (left, right)
pub fn unmix_ls(left: i64, side: i64) -> (i64, i64) { (left, left - side) }
/// side/right -> (left, right)
pub fn unmix_sr(side: i64, right: i64) -> (i64, i64) { (side + right, right) }
/// mid/side -> (left, right)
pub fn unmix_ms(mid: i64, side: i64) -> (i64, i64) {
    let m = (mid << 1) | (side & 1);
    ((m + side) >> 1, (m - side) >> 1)
}

/// value fits a two's-complement field of `bits` bits (1..=64)
pub fn fits(v: i64, bits: u32) -> bool {
    if bits >= 64 { true } else { v >= -(1i64 << (bits - 1)) && v <= (1i64 << (bits - 1)) - 1 }
}
