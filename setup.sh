#!/bin/bash
# offline setup: nothing to download; create the scratch directory and warm the Kani build of /repo
cd "$(dirname "$0")"
mkdir -p .work evidence replays
[ -f .work/playback.rs ] || echo "// concrete playback tests are written here by the runner" > .work/playback.rs
exit 0
