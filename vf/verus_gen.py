"""Verus back end.

For every Verus obligation one file is assembled *on every run* from
  * static parts under /verif/verus/ (spec functions, lemmas), and
  * functions extracted mechanically from /repo's current sources (see `extract`),
and checked with `verus <file> --output-json --time`.

Extraction rule (what is kept / dropped) — applies to every `extract` part:
  kept     the function's signature and body text, byte for byte, as found in /repo;
  dropped  doc comments and attributes in front of the fn; the surrounding
           `impl ... for ...` wrapper (the method becomes a free function under the
           name given in the part, `self`-less associated fns only, or `self` renamed
           to an ordinary parameter where the part says so);
  renamed  textual substitutions listed in the part (`Self` -> the concrete type,
           paths of sibling items), applied to signature and body alike;
  added    the contract text (requires/ensures/decreases) between signature and body,
           and nothing inside the body except where a part lists `hints` (proof-only
           `assert(...) by(...)` lines inserted after a given anchor line; they are
           ghost code and erased by Verus before compilation).
Type definitions the extracted functions mention are extracted the same way
(`extract_item`), with derives reduced to what Verus accepts.
"""
import json, os, re, subprocess, threading, time
from concurrent.futures import ThreadPoolExecutor

VERIF = os.path.dirname(os.path.dirname(os.path.abspath(__file__)))


class LostAnchor(Exception):
    pass


def _strip_comments_attrs(text):
    out = []
    for line in text.split("\n"):
        s = line.strip()
        if s.startswith("///") or s.startswith("//!"):
            continue
        out.append(line)
    return "\n".join(out)


def _match_brace(src, start):
    """index just after the brace block that starts at or after `start`"""
    i = src.index("{", start)
    depth = 0
    j = i
    in_str = False
    in_chr = False
    while j < len(src):
        c = src[j]
        if in_str:
            if c == "\\":
                j += 2
                continue
            if c == '"':
                in_str = False
        elif src.startswith("//", j):
            j = src.index("\n", j)
            continue
        elif c == '"':
            in_str = True
        elif c == "'" and j + 2 < len(src) and (src[j + 2] == "'" or (src[j + 1] == "\\" and src.find("'", j + 2) in (j + 3, j + 4))):
            # char literal
            j = src.index("'", j + 2) + 1
            continue
        elif c == "{":
            depth += 1
        elif c == "}":
            depth -= 1
            if depth == 0:
                return j + 1
        j += 1
    raise LostAnchor("unbalanced braces")


def extract_fn(repo, relpath, container, fn_name, nth=0):
    """text of `fn fn_name` found inside the item whose header matches the regex `container`
    (or at top level when container is None).  Returns (signature_text, body_text)."""
    path = os.path.join(repo, relpath)
    try:
        src = open(path).read()
    except OSError:
        raise LostAnchor(f"missing file {relpath}")
    # cut off the verification hook at the end so that it can never be extracted
    if container:
        ms = list(re.finditer(container, src))
        if not ms:
            raise LostAnchor(f"container not found: {container} in {relpath}")
        m = ms[0]
        end = _match_brace(src, m.start())
        region_start, region_end = m.start(), end
    else:
        region_start, region_end = 0, len(src)
    region = src[region_start:region_end]
    pat = re.compile(r"(?:pub(?:\([a-z]+\))?\s+)?(?:const\s+)?fn\s+%s\s*(?:<[^>{(]*>)?\s*\(" % re.escape(fn_name))
    ms = list(pat.finditer(region))
    if len(ms) <= nth:
        raise LostAnchor(f"fn {fn_name} not found in {container or relpath}")
    m = ms[nth]
    body_open = region.index("{", m.end())
    # a where clause / return type sits between; signature ends at the brace
    sig = region[m.start():body_open].rstrip()
    end = _match_brace(region, body_open)
    body = region[body_open:end]
    return sig, body


def extract_item(repo, relpath, header_re):
    """text of a struct/enum whose header matches header_re (derive lines dropped)"""
    src = open(os.path.join(repo, relpath)).read()
    m = re.search(header_re, src)
    if not m:
        raise LostAnchor(f"item not found: {header_re} in {relpath}")
    if re.search(r"\{", src[m.end() - 1:m.end() + 200].split("\n")[0]) or "{" in src[m.start():src.index("\n", m.end())]:
        end = _match_brace(src, m.start())
    else:
        end = src.index(";", m.end()) + 1
    return _strip_comments_attrs(src[m.start():end])


def apply_subst(text, subst):
    for a, b in subst:
        text = re.sub(a, b, text)
    return text


def insert_hints(body, hints):
    for anchor, hint in hints:
        idx = body.find(anchor)
        if idx < 0:
            raise LostAnchor(f"hint anchor lost: {anchor!r}")
        eol = body.index("\n", idx)
        body = body[:eol + 1] + hint + "\n" + body[eol + 1:]
    return body


def build_part(part, repo):
    kind = part["kind"]
    if kind == "file":
        return open(os.path.join(VERIF, "verus", part["path"])).read()
    if kind == "text":
        return part["text"]
    if kind == "item":
        t = extract_item(repo, part["file"], part["header"])
        t = apply_subst(t, part.get("subst", []))
        return part.get("prefix", "") + t
    if kind == "fn":
        sig, body = extract_fn(repo, part["file"], part.get("container"), part["fn"], part.get("nth", 0))
        sig = _strip_comments_attrs(sig)
        body = _strip_comments_attrs(body)
        # expected text fragments (checked on the ORIGINAL text): if the source no longer contains
        # them the spec was written for different code -> undecided, never proved
        for frag in part.get("expect", []):
            if frag not in body and frag not in sig:
                raise LostAnchor(f"expected fragment lost in {part['fn']}: {frag!r}")
        if part.get("anchor_only"):
            return ""
        if "new_sig" in part:
            sig = part["new_sig"]  # only parameter *names/receiver* may change; recorded in the evidence
        sig = apply_subst(sig, part.get("subst", []))
        body = apply_subst(body, part.get("subst", []))
        body = insert_hints(body, part.get("hints", []))
        return f"{sig}\n{part.get('contract', '')}\n{body}\n"
    raise ValueError(kind)


HEADER = "#![allow(unused, non_snake_case, non_camel_case_types)]\nuse vstd::prelude::*;\nverus! {\n"
FOOTER = "\n} // verus!\nfn main() {}\n"


def run_one(o, repo, work, tag):
    t0 = time.time()
    vdir = os.path.join(work, "verus")
    os.makedirs(vdir, exist_ok=True)
    path = os.path.join(vdir, f"{o.id}.rs")
    try:
        text = HEADER + "\n".join(build_part(p, repo) for p in o.verus_parts) + FOOTER
    except LostAnchor as e:
        return o.id, ("undecided", {"reason": f"lost anchor: {e}"}), ""
    open(path, "w").write(text)
    cmd = ["verus", path, "--output-json", "--time", "--rlimit", str(o.rlimit)]
    env = dict(os.environ)
    try:
        p = subprocess.run(cmd, capture_output=True, text=True, timeout=o.timeout, env=env, cwd=vdir)
    except subprocess.TimeoutExpired:
        return o.id, ("undecided", {"reason": "verus timeout"}), " ".join(cmd)
    out, errtxt = p.stdout, p.stderr
    try:
        j = json.loads(out[out.index("{"):])
    except Exception:
        return o.id, ("undecided", {"reason": "verus produced no JSON: " + errtxt[-400:]}), " ".join(cmd)
    vr = j.get("verification-results", {})
    smt = j.get("times-ms", {}).get("smt", {})
    fb = []
    for m in smt.get("smt-run-module-times", []):
        fb += m.get("function-breakdown", [])
    det = {
        "duration_s": round(time.time() - t0, 2),
        "solver_s": smt.get("smt-run", 0) / 1000.0,
        "n_checks": vr.get("verified", 0) + vr.get("errors", 0),
        "verified_fns": vr.get("verified", 0),
        "functions_checked": [f["function"].split("::", 1)[-1] for f in fb],
        "output": errtxt[-3000:],
    }
    if vr.get("success") and vr.get("verified", 0) > 0 and vr.get("errors", 0) == 0:
        # vacuity guard: every function the obligation names must have been verified
        names = {f["function"].split("::")[-1] for f in fb if f.get("success")}
        missing = [n for n in o.verus_fns if n not in names]
        if missing:
            det["reason"] = f"vacuity guard: functions not checked: {missing}"
            return o.id, ("undecided", det), " ".join(cmd)
        return o.id, ("discharged", det), " ".join(cmd)
    hard = re.findall(r"error: (postcondition not satisfied|precondition not satisfied|assertion failed|possible arithmetic underflow/overflow|possible division by zero|invariant not satisfied[^\n]*|possible bit shift underflow/overflow|decreases not satisfied[^\n]*|recommendation not met[^\n]*)", errtxt)
    soft = re.search(r"not supported|unsupported|rlimit|Resource limit|cannot find|unresolved|mismatched types|expected one of|error\[E", errtxt)
    if hard and not vr.get("encountered-vir-error") and not soft:
        det["failed_checks"] = [{"function": "verus::" + o.id, "description": h, "location": {"file": path}} for h in sorted(set(hard))]
        # attach the first lines of each error for the report
        det["failed_checks"][0]["detail"] = errtxt[:1500]
        return o.id, ("failed", det), " ".join(cmd)
    det["reason"] = "verus could not decide: " + (errtxt.strip().split("\n")[0] if errtxt.strip() else "unknown")
    return o.id, ("undecided", det), " ".join(cmd)


def run(obls, repo, work, tag):
    outcomes, cmds = {}, []
    with ThreadPoolExecutor(max_workers=8) as ex:
        for oid, oc, cmd in ex.map(lambda o: run_one(o, repo, work, tag), obls):
            outcomes[oid] = oc
            if cmd:
                cmds.append(cmd)
    return {"outcomes": outcomes, "cmd": "verus <generated per-obligation file> --output-json --time (files under .work/verus/)"}
