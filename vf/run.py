#!/usr/bin/env python3
"""Runner: builds the obligation list of a property, dispatches the Kani and
Verus back ends against /repo's current working tree, classifies the results,
replays counterexamples, writes evidence/<id>.json, prints verdict lines.

exit 0  every obligation discharged (known findings are reported, not alarms)
exit 1  a contract obligation failed  -> VIOLATION property=<id> replay=<path>
exit 2  something could not be decided (timeout, lost anchor, build error ...)
"""
import argparse, hashlib, json, os, re, shutil, signal, subprocess, sys, threading, time

VERIF = os.path.dirname(os.path.dirname(os.path.abspath(__file__)))
REPO = os.environ.get("VERIF_REPO", "/repo")
WORK = os.path.join(VERIF, ".work")
sys.path.insert(0, os.path.join(VERIF, "contracts"))
sys.path.insert(0, os.path.join(VERIF, "vf"))

import table  # noqa: E402  (contracts/table.py)
import verus_gen  # noqa: E402

KANI_FLAGS = [
    "-Z", "stubbing", "-Z", "unstable-options", "-Z", "function-contracts",
    "--no-memory-safety-checks", "--no-assertion-reach-checks",
    "--output-format", "terse",
]
MEM_LIMIT_KB = 20 * 1024 * 1024  # per cbmc process
CORES = os.cpu_count() or 4


def log(*a):
    print(*a, flush=True)


def ensure_work():
    os.makedirs(WORK, exist_ok=True)
    pb = os.path.join(WORK, "playback.rs")
    if not os.path.exists(pb):
        open(pb, "w").write("// concrete playback tests are written here by the runner\n")


# ----------------------------------------------------------------------------- known findings

def load_known():
    path = os.path.join(VERIF, "known-findings.txt")
    findings = []
    if os.path.exists(path):
        for line in open(path):
            line = line.strip()
            if not line.startswith("finding:"):
                continue
            m = re.match(r"finding:\s+property=(\S+)\s+harness=(\S+)\s+check=(\S+?)::(/.*?/)\s+(.*)$", line)
            if not m:
                continue
            findings.append({
                "property": m.group(1), "harness": m.group(2), "function": m.group(3),
                "desc_re": m.group(4)[1:-1], "what": m.group(5),
            })
    return findings


def match_known(known, prop, harness, function, desc):
    for k in known:
        if k["property"] != prop:
            continue
        if k["harness"] not in ("*", harness.split("::")[-1], harness):
            continue
        if k["function"] != "*" and k["function"] not in function:
            continue
        if re.search(k["desc_re"], desc):
            return k
    return None


# ----------------------------------------------------------------------------- kani back end

class Watchdog(threading.Thread):
    """kills cbmc processes that exceed the memory limit (-> obligation undecided)"""

    def __init__(self):
        super().__init__(daemon=True)
        self.stop = False
        self.killed = []

    def run(self):
        while not self.stop:
            try:
                for pid in os.listdir("/proc"):
                    if not pid.isdigit():
                        continue
                    try:
                        comm = open(f"/proc/{pid}/comm").read().strip()
                        if comm != "cbmc":
                            continue
                        for l in open(f"/proc/{pid}/status"):
                            if l.startswith("VmRSS:"):
                                if int(l.split()[1]) > MEM_LIMIT_KB:
                                    os.kill(int(pid), signal.SIGKILL)
                                    self.killed.append(pid)
                    except (FileNotFoundError, ProcessLookupError, PermissionError):
                        pass
            except Exception:
                pass
            time.sleep(2)


def prune_kani_target():
    """every distinct build of the crate leaves a directory of goto binaries behind; keep the two newest"""
    import glob
    dirs = sorted(glob.glob(os.path.join(WORK, "kani", "kani", "*", "debug", "build", "flac-codec", "*")), key=os.path.getmtime)
    for d in dirs[:-2]:
        shutil.rmtree(d, ignore_errors=True)


def run_kani(obls, tag, extra=None, jobs=None):
    """one cargo-kani invocation for all harnesses in obls; returns dict harness -> result"""
    ensure_work()
    prune_kani_target()
    out_json = os.path.join(WORK, f"kani-{tag}.json")
    log_path = os.path.join(WORK, f"kani-{tag}.log")
    if os.path.exists(out_json):
        os.remove(out_json)
    timeout = max(o.timeout for o in obls)
    jobs = jobs or min(CORES, max(1, len(obls)))
    cmd = ["cargo", "kani", "--target-dir", os.path.join(WORK, "kani")] + KANI_FLAGS + [
        "-j", str(jobs), "--harness-timeout", f"{timeout}s", "--exact", "--export-json", out_json]
    for o in obls:
        cmd += ["--harness", o.harness]
    if extra:
        cmd += extra
    env = dict(os.environ, CARGO_NET_OFFLINE="true")
    env.pop("RUSTUP_TOOLCHAIN", None)
    wd = Watchdog()
    wd.start()
    t0 = time.time()
    with open(log_path, "w") as lf:
        lf.write("$ " + " ".join(cmd) + "\n")
        lf.flush()
        try:
            p = subprocess.run(cmd, cwd=REPO, env=env, stdout=lf, stderr=subprocess.STDOUT,
                               timeout=timeout * (1 + len(obls) // jobs) + 900)
            rc = p.returncode
        except subprocess.TimeoutExpired:
            rc = -9
    wd.stop = True
    wall = time.time() - t0
    text = open(log_path, errors="replace").read()
    results = {}
    data = None
    if os.path.exists(out_json):
        try:
            data = json.load(open(out_json))
        except Exception:
            data = None
    build_failed = ("error: could not compile" in text) or ("error[E" in text and data is None)
    if data:
        stats = {c["harness_id"]: c.get("cbmc_stats", {}) for c in data.get("cbmc", [])}
        for r in data.get("verification_results", {}).get("results", []):
            results[r["harness_id"]] = {
                "status": r.get("status"), "duration_ms": r.get("duration_ms", 0),
                "checks": r.get("checks", []), "stats": stats.get(r["harness_id"], {}),
            }
    return {"rc": rc, "wall": wall, "results": results, "log": log_path, "cmd": " ".join(cmd),
            "build_failed": build_failed, "oom_killed": list(wd.killed), "text": text}


MEM_PATTERNS = ("dereference failure", "memcpy ", "pointer to unallocated memory", "free argument", "double free",
                "rust_dealloc must be called", "pointer NULL", "pointer invalid", "deallocated dynamic object", "dead object",
                "pointer outside object bounds", "invalid integer address", "pointer relation", "same object violation")


def is_memory_model_artefact(c):
    """Memory-safety checks are out of scope by design (--no-memory-safety-checks; the crate is forbid(unsafe_code)),
    but CBMC still reports a few from Kani's allocator model (kani_lib.c) and from slice/Vec internals when a value
    holding std::io::Error or a Vec with merged provenance is dropped.  They are tool artefacts, never contract failures."""
    d = c.get("description", "")
    f = str(c.get("location", {}).get("file", ""))
    fn = c.get("function", "")
    if fn in ("__rust_dealloc", "__rust_realloc", "__rust_alloc") or "kani_lib.c" in f:
        return True
    if "kani::mem" in fn:
        return True
    return any(pat in d for pat in MEM_PATTERNS) and not f.startswith("/verif") and "src/" not in f[:4]


def classify_kani(o, res):
    """-> (outcome, details) outcome in discharged|failed|undecided"""
    r = res["results"].get(o.harness)
    if r is None:
        why = "build failed" if res["build_failed"] else "no result for harness (renamed/removed anchor, timeout or crash)"
        return "undecided", {"reason": why}
    checks = r["checks"]
    failed = [c for c in checks if c.get("status") in ("Failure", "FAILURE")]
    undet = [c for c in checks if c.get("status") in ("Undetermined", "UNDETERMINED")]
    covers = [c for c in checks if c.get("category") == "cover" or c.get("status") in ("Satisfied", "Unsatisfiable", "SATISFIED", "UNSATISFIABLE")]
    unsat_cov = [c for c in covers if c.get("status") in ("Unsatisfiable", "UNSATISFIABLE", "Unreachable", "UNREACHABLE")]
    real, soft, ignored = [], [], []
    for c in failed:
        d = c.get("description", "")
        if d.startswith("UNDECIDED") or "unwinding assertion" in d or "recursion unwinding" in d:
            soft.append(c)
        elif "unsupported" in d.lower() or "is not currently supported" in d:
            soft.append(c)
        elif is_memory_model_artefact(c):
            # artefact of Kani's model of std::io::Error's bit-packed representation when an error value is
            # dropped; memory-safety checks are off by design (the crate is forbid(unsafe_code))
            ignored.append(c)
        else:
            real.append(c)
    det = {"duration_s": r["duration_ms"] / 1000.0, "stats": r["stats"], "n_checks": len(checks),
           "covers_satisfied": len(covers) - len(unsat_cov), "covers_total": len(covers)}
    if real and ignored and not o.artefacts_ok:
        # CBMC's memory model lost track (artefacts of dropping io::Error / Vec values with checks off) in a harness
        # that does not show them on the unchanged tree: values read afterwards may be garbage, so a contract
        # failure reported together with them is not trustworthy -> undecided, never an alarm
        det["reason"] = "contract check failed together with new memory-model artefacts; result not trustworthy: " + "; ".join(
            sorted({c.get("description", "")[:80] for c in real}))
        det["ignored_tool_artefacts"] = len(ignored)
        return "undecided", det
    if real:
        det["failed_checks"] = real
        return "failed", det
    if soft or undet:
        det["reason"] = "; ".join(sorted({c.get("description", "")[:100] for c in soft + undet}))
        return "undecided", det
    if ignored:
        det["ignored_tool_artefacts"] = len(ignored)
    if r["status"] not in ("Success", "SUCCESS") and not ignored:
        det["reason"] = f"harness status {r['status']} (timeout / solver error / out of memory)"
        return "undecided", det
    if unsat_cov:
        det["reason"] = "vacuity guard: cover not satisfiable: " + "; ".join(c.get("description", "") for c in unsat_cov)
        return "undecided", det
    if len(checks) == 0:
        det["reason"] = "vacuity guard: harness generated no checks"
        return "undecided", det
    return "discharged", det


# ----------------------------------------------------------------------------- replay

def kani_replay(o, failed_checks, res_text, prop):
    """Re-run the failing harness with concrete playback, store the generated unit test and try
    to execute it natively against /repo.  Returns (replay_path, reproduced: bool|None)."""
    ensure_work()
    os.makedirs(os.path.join(VERIF, "replays"), exist_ok=True)
    key = hashlib.sha1((o.harness + json.dumps([c.get("description") for c in failed_checks])).encode()).hexdigest()[:10]
    path = os.path.join(VERIF, "replays", f"{prop}-{o.id}-{key}.json")
    rec = {"property": prop, "obligation": o.id, "harness": o.harness, "backend": "kani",
           "contract": o.contract, "failed_checks": failed_checks, "functions": o.functions}
    env = dict(os.environ, CARGO_NET_OFFLINE="true")
    cmd = ["cargo", "kani", "--target-dir", os.path.join(WORK, "kani")] + KANI_FLAGS + [
        "-Z", "concrete-playback", "--concrete-playback=print", "--exact", "--harness", o.harness,
        "--harness-timeout", f"{o.timeout}s"]
    reproduced = None
    try:
        p = subprocess.run(cmd, cwd=REPO, env=env, capture_output=True, text=True, timeout=o.timeout + 600)
        out = p.stdout + p.stderr
        m = re.search(r"```\s*\n(.*?#\[test\].*?)```", out, re.S)
        if m:
            test_src = m.group(1)
            rec["playback_test"] = test_src
            tn = re.search(r"fn (kani_concrete_playback_\w+)", test_src)
            rec["concrete_values"] = re.findall(r"// (.*)\n\s*vec!\[([^\]]*)\]", test_src)
            if tn and not o.stubs:
                # run natively: the test is placed in crate::verif_k::playback
                short = o.harness.split("::")[-1]
                src = re.sub(r"\b%s\b\s*\)" % re.escape(short), "crate::%s)" % o.harness, test_src)
                pb = os.path.join(WORK, "playback.rs")
                open(pb, "w").write("#![allow(unused)]\n" + src + "\n")
                cmd2 = ["cargo", "kani", "playback", "-Z", "concrete-playback", "--lib", "--", tn.group(1)]
                env2 = dict(env, CARGO_TARGET_DIR=os.path.join(WORK, "kani-playback"))
                p2 = subprocess.run(cmd2, cwd=REPO, env=env2, capture_output=True, text=True, timeout=900)
                out2 = p2.stdout + p2.stderr
                rec["native_output"] = out2[-4000:]
                if "test result: FAILED" in out2 or "panicked at" in out2:
                    reproduced = True
                elif "test result: ok" in out2:
                    reproduced = False
                open(pb, "w").write("// concrete playback tests are written here by the runner\n")
            elif o.stubs:
                rec["native_note"] = "obligation uses callee stubs; Kani playback cannot run through stubs"
        else:
            rec["playback_note"] = "Kani produced no concrete playback test"
        rec["verifier_output_tail"] = out[-3000:]
    except Exception as e:  # replay is best effort; the violation stands on the failed obligation
        rec["replay_error"] = repr(e)
    rec["reproduced_natively"] = reproduced
    json.dump(rec, open(path, "w"), indent=1)
    return path, reproduced


# ----------------------------------------------------------------------------- main

def main():
    ap = argparse.ArgumentParser()
    ap.add_argument("prop")
    ap.add_argument("--tier", default=os.environ.get("VERIF_TIER", "quick"), choices=["quick", "thorough"])
    ap.add_argument("--replay", default=None)
    ap.add_argument("--only", default=None, help="comma separated obligation ids (development aid)")
    ap.add_argument("--no-replay", action="store_true")
    args = ap.parse_args()
    prop = args.prop
    seed = int(os.environ.get("VERIF_SEED", "0") or 0)
    t0 = time.time()

    if args.replay:
        return do_replay(args.replay)

    spec = table.PROPERTIES.get(prop)
    if spec is None:
        log(f"unknown or unclaimed property {prop}")
        return 2
    obls = [o for o in table.OBLIGATIONS if prop in o.props and (args.tier == "thorough" or o.tier == "quick")]
    if args.only:
        want = set(args.only.split(","))
        obls = [o for o in obls if o.id in want]
    expected = len(obls)
    if expected == 0:
        log(f"vacuity guard: no obligations selected for {prop}")
        return 2
    known = load_known()
    kani_obls = [o for o in obls if o.backend == "kani"]
    verus_obls = [o for o in obls if o.backend == "verus"]

    outcomes = {}  # id -> (outcome, details)
    cmds = []
    if verus_obls:
        vres = verus_gen.run(verus_obls, REPO, WORK, f"{prop}-{args.tier}")
        cmds.append(vres["cmd"])
        for o in verus_obls:
            outcomes[o.id] = vres["outcomes"].get(o.id, ("undecided", {"reason": "no verus result"}))
    kres = None
    if kani_obls:
        kres = run_kani(kani_obls, f"{prop}-{args.tier}")
        cmds.append(kres["cmd"])
        for o in kani_obls:
            outcomes[o.id] = classify_kani(o, kres)
        # harnesses that were lost because one sibling blew the whole run: retry them alone, once
        missing = [o for o in kani_obls if outcomes[o.id][0] == "undecided" and o.harness not in kres["results"]]
        if missing and not kres["build_failed"] and len(missing) < len(kani_obls):
            k2 = run_kani(missing, f"{prop}-{args.tier}-retry")
            for o in missing:
                outcomes[o.id] = classify_kani(o, k2)

    violations, known_hits, undecided = [], [], []
    for o in obls:
        oc, det = outcomes[o.id]
        if oc == "failed":
            checks = det.get("failed_checks", [])
            unknown = []
            for c in checks:
                k = match_known(known, prop, o.harness, c.get("function", ""), c.get("description", ""))
                if k:
                    known_hits.append((o, c, k))
                else:
                    unknown.append(c)
            if unknown:
                violations.append((o, unknown, det))
            elif not checks:
                violations.append((o, [], det))
        elif oc == "undecided":
            undecided.append((o, det))

    # ---- report
    rc = 0
    seen = set()
    for o, c, k in known_hits:
        key = (k["what"])
        if key in seen:
            continue
        seen.add(key)
        log(f"KNOWN-FINDING: property={prop} {k['what']}")
    for o, det in undecided:
        log(f"UNDECIDED obligation={o.id} harness={o.harness} reason={det.get('reason', '?')}")
        rc = max(rc, 2)
    for o, checks, det in violations:
        if o.backend == "kani" and not args.no_replay:
            path, reproduced = kani_replay(o, checks, kres["text"] if kres else "", prop)
        else:
            os.makedirs(os.path.join(VERIF, "replays"), exist_ok=True)
            path = os.path.join(VERIF, "replays", f"{prop}-{o.id}.json")
            json.dump({"property": prop, "obligation": o.id, "backend": o.backend, "contract": o.contract,
                       "failed_checks": checks, "verifier_output": det.get("output", "")}, open(path, "w"), indent=1)
            reproduced = None
        for c in checks[:5]:
            loc = c.get("location", {})
            log(f"  failed obligation {o.id}: {c.get('function')}: {c.get('description')} @ {loc.get('file')}:{loc.get('line')}")
        tail = "" if reproduced else " no-failing-input-found"
        log(f"VIOLATION property={prop} replay={path}{tail}")
        rc = 1

    # ---- evidence
    write_evidence(prop, args.tier, seed, spec, obls, outcomes, known_hits, violations, cmds, time.time() - t0)
    n_dis = sum(1 for o in obls if outcomes[o.id][0] == "discharged")
    log(f"{prop} [{args.tier}]: {n_dis}/{expected} obligations discharged, {len(violations)} violated, "
        f"{len(undecided)} undecided, {len(seen)} known findings; wall {time.time() - t0:.0f}s")
    return rc


def write_evidence(prop, tier, seed, spec, obls, outcomes, known_hits, violations, cmds, wall):
    os.makedirs(os.path.join(VERIF, "evidence"), exist_ok=True)
    samples, funcs, assumptions = [], set(), set(table.GLOBAL_ASSUMPTIONS)
    proved = bounded = 0
    solver_s = 0.0
    vccs = 0
    for o in obls:
        oc, det = outcomes[o.id]
        st = (det.get("stats") or {}) if isinstance(det, dict) else {}
        solver_s += float(st.get("runtime_solver_s", 0) or 0) + float(det.get("solver_s", 0) or 0)
        vccs += int(det.get("n_checks", 0) or 0)
        samples.append({
            "obligation": o.id, "backend": o.backend, "harness": o.harness, "functions": o.functions,
            "contract": o.contract, "domain": o.domain, "bound": o.bound, "outcome": oc,
            "wall_s": det.get("duration_s"), "solver_s": st.get("runtime_solver_s", det.get("solver_s")),
            "checks": det.get("n_checks"), "covers_satisfied": det.get("covers_satisfied"),
            "stubs": o.stubs, "reason": det.get("reason"),
        })
        funcs.update(o.functions)
        for s in o.stubs:
            assumptions.add(f"callee replaced by its contract (stub) in {o.id}: {s}")
        for a in o.assumes:
            assumptions.add(a)
        if oc == "discharged":
            if o.domain == "full":
                proved += 1
            else:
                bounded += 1
    n_total = len(obls)
    n_full = sum(1 for o in obls if o.domain == "full")
    level = spec["level"]
    cov = {
        "obligations": n_total,
        "discharged": proved + bounded,
        "proved_full_domain": proved,
        "obligations_full_domain": n_full,
        "bounded_discharged": bounded,
        "bounded": [{"obligation": o.id, "bound": o.bound} for o in obls if o.domain != "full"],
        "functions": sorted(funcs),
        "checker_cmd": " ;; ".join(cmds),
        "trusted_base": table.TRUSTED_BASE,
        "samples": samples,
        "evaluations": max(vccs, n_total),
        "distinct_nontrivial": proved + bounded,
        "rule": "one case = one contract obligation (a Kani harness over symbolic inputs or a Verus function); "
                "non-trivial = discharged with every vacuity cover satisfied; evaluations = verification conditions checked",
        "solver_time_s": round(solver_s, 3),
        "known_findings_reported": sorted({k["what"] for _, _, k in known_hits}),
        "not_decided": spec.get("not_decided", []),
        "exhaustive": False,
    }
    ev = {
        "property_id": prop, "tier": tier, "seed": seed, "level": level, "coverage": cov,
        "assumptions": sorted(assumptions), "wall_s": round(wall, 2), "violations": len(violations),
    }
    json.dump(ev, open(os.path.join(VERIF, "evidence", f"{prop}.json"), "w"), indent=1)


def do_replay(path):
    rec = json.load(open(path))
    o = next((x for x in table.OBLIGATIONS if x.id == rec["obligation"]), None)
    if o is None:
        log("unknown obligation in replay file")
        return 2
    if o.backend == "kani":
        res = run_kani([o], "replay")
        oc, det = classify_kani(o, res)
    else:
        v = verus_gen.run([o], REPO, WORK, "replay")
        oc, det = v["outcomes"].get(o.id, ("undecided", {}))
    log(f"replay of {o.id}: {oc}")
    for c in det.get("failed_checks", [])[:10]:
        log(f"  {c.get('function')}: {c.get('description')}")
    if oc == "failed":
        log(f"VIOLATION property={rec['property']} replay={path}" + ("" if rec.get("reproduced_natively") else " no-failing-input-found"))
        return 1
    return 0 if oc == "discharged" else 2


if __name__ == "__main__":
    sys.exit(main())
