#!/usr/bin/env python3
"""writes seeded/<id>/meta.json for the given seed ids from notes.txt, confirm.log, check_result.txt and patch.diff
usage: vf/seedmeta.py <round> <base_commit> <blind.json> ids...   (blind.json: {id: "caught by ..."/"missed"/...} measured before any strengthening)"""
import json, os, re, sys
rnd, base, blindf = int(sys.argv[1]), sys.argv[2], sys.argv[3]
blind = json.load(open(blindf)) if os.path.exists(blindf) else {}
for sid in sys.argv[4:]:
    d = f"/verif/seeded/{sid}"
    conf = open(f"{d}/confirm.log").read()
    kv = dict(re.findall(r"^(APPLY|BUILD|SUITE|DEMO_WITH_PATCH|DEMO_WITHOUT_PATCH)=(\w+)", conf, re.M))
    cr = open(f"{d}/check_result.txt").read() if os.path.exists(f"{d}/check_result.txt") else ""
    files = sorted(set(re.findall(r"^\+\+\+ b/(\S+)", open(f"{d}/patch.diff").read(), re.M)))
    ex = re.search(r"exit=(\d+)", cr)
    meta = {
        "property": sid[:3], "round": rnd, "files_changed": files,
        "what_it_needs_to_manifest": open(f"{d}/notes.txt").read()[:1500],
        "produced_by": "fresh sub-agent given only the property text (plus one-line descriptions of the earlier changes to avoid) and a scratch worktree (nothing from /verif)",
        "confirmed_here": {"base_commit": base, "patch_applies": kv.get("APPLY"), "builds": kv.get("BUILD"), "existing_suite_with_patch": kv.get("SUITE"),
                           "suite_results": re.findall(r"^test result: (.*)$", conf, re.M),
                           "demonstration_with_patch": kv.get("DEMO_WITH_PATCH"), "demonstration_without_patch": kv.get("DEMO_WITHOUT_PATCH")},
        "check_result_blind": blind.get(sid),
        "check_result": {"exit": ex.group(1) if ex else None,
                         "failed_obligations": sorted(set(re.findall(r"failed obligation (\S+):", cr))),
                         "undecided": sorted(set(re.findall(r"UNDECIDED obligation=(\S+)", cr))),
                         "command": f"git -C /repo apply /verif/seeded/{sid}/patch.diff && ./check {sid[:3]} --tier quick ; git -C /repo checkout -- ."},
    }
    json.dump(meta, open(f"{d}/meta.json", "w"), indent=1)
    print(sid, meta["check_result"]["exit"], meta["check_result"]["failed_obligations"][:3], meta["check_result"]["undecided"][:2])
