#!/bin/bash
# runs the quick check of each seeded change's property with the change applied to /repo, then reverts it
# usage: vf/seedrun.sh [ids...]   -> writes seeded/<id>/check_result.txt and seeded/RESULTS.md
cd /verif
ids="$@"; [ -z "$ids" ] && ids=$(ls seeded | grep '^C')
for id in $ids; do
  git -C /repo checkout -q -- . 
  if ! git -C /repo apply /verif/seeded/$id/patch.diff; then echo "$id: patch does not apply" > seeded/$id/check_result.txt; continue; fi
  props=${id:0:3}
  [ -f seeded/$id/also_check.txt ] && props="${id:0:3} $(cat seeded/$id/also_check.txt)"
  : > seeded/$id/check_result.txt
  for p in $props; do
    if grep -q "\"property_id\": \"$p\"" MANIFEST.json && ! python3 -c "import json,sys; m=json.load(open('MANIFEST.json')); sys.exit(0 if any(c['property_id']=='$p' for c in m['checks']) else 1)"; then
      echo "[$p] not claimed (not_applicable)" >> seeded/$id/check_result.txt; continue
    fi
    out=$(./check $p --tier ${SEED_TIER:-quick} 2>&1); rc=$?
    echo "[$p] exit=$rc" >> seeded/$id/check_result.txt
    echo "$out" | grep -E "VIOLATION|failed obligation|UNDECIDED|KNOWN-FINDING|obligations discharged" | head -12 >> seeded/$id/check_result.txt
  done
  git -C /repo checkout -q -- .
done
