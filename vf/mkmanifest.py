#!/usr/bin/env python3
"""regenerates MANIFEST.json from contracts/table.py (claimed properties) and contracts/not_applicable.json"""
import json, os, sys
VERIF = os.path.dirname(os.path.dirname(os.path.abspath(__file__)))
sys.path.insert(0, os.path.join(VERIF, "contracts"))
import table

ALL = [f"C{n:02d}" for n in range(1, 21)]
na = json.load(open(os.path.join(VERIF, "contracts", "not_applicable.json")))
checks = []
for pid in ALL:
    spec = table.PROPERTIES.get(pid)
    if not spec:
        continue
    has_thorough = any(pid in o.props and o.tier == "thorough" for o in table.OBLIGATIONS)
    c = {
        "property_id": pid,
        "quick_cmd": f"./check {pid} --tier quick",
        "evidence_file": f"/verif/evidence/{pid}.json",
        "replay_cmd_template": f"./check {pid} --replay {{path}}",
        "engine": "contracts",
        "level_claimed": {"category": spec["level"], "text": spec["text"], "design_ref": spec.get("design_ref", "DESIGN.md §4 " + pid)},
        "level_note": spec["note"],
        "technique": spec.get("technique", "contract-based deductive verification: Kani function-contract obligations on the real functions + Verus lemmas/extracted functions"),
    }
    c["thorough_cmd"] = f"./check {pid} --tier thorough"
    checks.append(c)
claimed = {c["property_id"] for c in checks}
m = {
    "version": 1,
    "setup_cmd": "./setup.sh",
    "hooks": {
        "guard": "cfg(kani)",
        "enable": "cargo kani sets --cfg kani; the hook lines `#[cfg(kani)] #[path = \"/verif/harness/<module>.rs\"] mod verif_k;` at the end of each src file then compile the harness modules into the crate",
        "baseline_off_cmd": "cd /repo && cargo test --workspace --no-fail-fast --offline",
        "source_commits": json.load(open(os.path.join(VERIF, "contracts", "repo_commits.json")))["hooks"],
        "add_only": True,
    },
    "engines": [
        {"name": "contracts", "path": "/verif/vf/run.py", "serves_properties": sorted(claimed),
         "kind_free_text": "runner for contract obligations: Kani (real crate, in place) and Verus (functions extracted from /repo every run)"},
    ],
    "checks": checks,
    "not_applicable": [{"property_id": p, "reason": na[p]} for p in ALL if p not in claimed],
    "notes": "See DESIGN.md. exit 0 = all obligations discharged; 1 = VIOLATION; 2 = undecided (timeout, lost anchor, build error) - never an alarm.",
}
missing = [p for p in ALL if p not in claimed and p not in na]
assert not missing, missing
json.dump(m, open(os.path.join(VERIF, "MANIFEST.json"), "w"), indent=1)
print("claimed:", sorted(claimed))
