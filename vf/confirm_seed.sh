#!/bin/bash
wt=$1; shift
head=$(git -C /repo rev-parse HEAD)
cd $wt
export CARGO_TARGET_DIR=$wt/target
for id in "$@"; do
  out=/verif/seeded/$id/confirm.log
  : > $out
  git checkout -q --detach $head 2>>$out; git checkout -q -- . ; rm -f tests/seed_demo.rs
  if ! git apply /verif/seeded/$id/patch.diff 2>>$out; then echo "APPLY=fail" >> $out; continue; fi
  echo "APPLY=ok" >> $out
  if cargo build --offline >>$out 2>&1; then echo "BUILD=ok" >> $out; else echo "BUILD=fail" >> $out; git checkout -q -- .; continue; fi
  if cargo test --offline --no-fail-fast > $out.suite 2>&1; then echo "SUITE=pass" >> $out; else echo "SUITE=fail" >> $out; fi
  grep -E "^test result" $out.suite >> $out
  cp /verif/seeded/$id/demo.rs tests/seed_demo.rs
  if cargo test --offline --test seed_demo > $out.demo_with 2>&1; then echo "DEMO_WITH_PATCH=pass" >> $out; else echo "DEMO_WITH_PATCH=fail" >> $out; fi
  git checkout -q -- .
  if cargo test --offline --test seed_demo > $out.demo_without 2>&1; then echo "DEMO_WITHOUT_PATCH=pass" >> $out; else echo "DEMO_WITHOUT_PATCH=fail" >> $out; fi
  rm -f tests/seed_demo.rs $out.suite $out.demo_with $out.demo_without
done
echo ALLDONE > /tmp/.confirm4_$(basename $wt)
