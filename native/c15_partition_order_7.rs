// native witness for the partition-order panic (C15 / C01): place in /repo/tests/ and run `cargo test --test c15_partition_order_7`
// pinned tree: panics with "ArrayVec: capacity exceeded in extend/from_iter" inside write_residuals::best_partitions
// for every documented maximum partition order from 7 to 15 once the block size is a multiple of 128
use flac_codec::decode::FlacSampleReader;
use flac_codec::encode::{FlacSampleWriter, Options};
use std::io::{Cursor, Seek};

#[test]
fn documented_partition_orders_yield_a_writer_that_works() {
    let samples: Vec<i32> = (0..8192).map(|i| ((i * 37) % 2001) - 1000).collect();
    for order in [6u32, 7, 8, 15] {
        let mut file = Cursor::new(Vec::new());
        let options = Options::default().max_partition_order(order).unwrap();
        let mut w = FlacSampleWriter::new(&mut file, options, 44100, 16, 1, Some(samples.len() as u64)).unwrap();
        w.write(&samples).unwrap();
        w.finalize().unwrap();
        file.rewind().unwrap();
        let mut r = FlacSampleReader::new(file).unwrap();
        let mut out = vec![0i32; samples.len()];
        let mut got = 0;
        while got < out.len() {
            let n = r.read(&mut out[got..]).unwrap();
            assert!(n > 0);
            got += n;
        }
        assert_eq!(out, samples, "max partition order {order}");
    }
}
