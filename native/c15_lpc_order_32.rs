// native witness for the order-32 debug assertion (C15): place in /repo/tests/ and run `cargo test --test c15_lpc_order_32`
// pinned tree (debug profile): panics with "assertion failed: usize::from(max_lpc_order.get()) < MAX_LPC_COEFFS" (src/encode.rs, autocorrelate)
use flac_codec::decode::FlacSampleReader;
use flac_codec::encode::{FlacSampleWriter, Options};
use std::io::{Cursor, Seek};

#[test]
fn documented_maximum_lpc_order_yields_a_writer_that_works() {
    let samples: Vec<i32> = (0..4096).map(|i| ((i * 37) % 2001) - 1000).collect();
    let mut file = Cursor::new(Vec::new());
    let options = Options::default().max_lpc_order(Some(32)).unwrap();
    let mut w = FlacSampleWriter::new(&mut file, options, 44100, 16, 1, Some(samples.len() as u64)).unwrap();
    w.write(&samples).unwrap();
    w.finalize().unwrap();
    file.rewind().unwrap();
    let mut r = FlacSampleReader::new(file).unwrap();
    let mut out = vec![0i32; samples.len()];
    let mut got = 0;
    while got < out.len() {
        let n = r.read(&mut out[got..]).unwrap();
        assert!(n > 0);
        got += n;
    }
    assert_eq!(out, samples);
}
