use flac_codec::{decode::FlacSampleReader, encode::{FlacSampleWriter, Options}};
use std::io::Cursor;
#[test]
fn short_block_order2() {
    let samples = vec![1000, 1010, 1020, 1040];
    let mut out = Cursor::new(Vec::new());
    let mut w = FlacSampleWriter::new(&mut out, Options::best(), 44100, 24, 1, None).unwrap();
    w.write(&samples).unwrap();
    w.finalize().unwrap();
    let bytes = out.into_inner();
    let mut r = FlacSampleReader::new(Cursor::new(bytes)).unwrap();
    let mut got = Vec::new();
    let res = r.read_to_end(&mut got);
    assert!(res.is_ok(), "decoder rejects the encoder's own output: {:?}", res);
    assert_eq!(got, samples);
}
