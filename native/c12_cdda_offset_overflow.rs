// native witness for the CDDAOffset::from_str overflow (C12): place in /repo/tests/ and run `cargo test --test c12_cdda_offset_overflow`
// pinned tree (debug profile): panics with "attempt to multiply with overflow" at src/metadata/cuesheet.rs:138
use flac_codec::metadata::cuesheet::CDDAOffset;
use flac_codec::metadata::Cuesheet;

#[test]
fn huge_minute_field_is_an_error_not_a_panic() {
    // 4099276460824345 * 75 * 60 > u64::MAX
    assert!("4099276460824345:00:00".parse::<CDDAOffset>().is_err());
    assert!("18446744073709551615:59:74".parse::<CDDAOffset>().is_err());
    // largest offset that fits and one CD frame more
    assert_eq!(u64::from("6971558606844:07:32".parse::<CDDAOffset>().unwrap()), 18446744073709551516);
    assert!("6971558606844:07:33".parse::<CDDAOffset>().is_err());
}

#[test]
fn cue_sheet_text_with_a_huge_index_time_is_an_error() {
    let text = "FILE \"x.wav\" WAVE\n  TRACK 01 AUDIO\n    INDEX 01 00:00:00\n  TRACK 02 AUDIO\n    INDEX 01 4099276460824345:00:00\n";
    assert!(Cuesheet::parse(588 * 10, text).is_err());
}
