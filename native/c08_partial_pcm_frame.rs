use flac_codec::encode::{FlacSampleWriter, Options};
use std::io::Cursor;
#[test]
fn partial_pcm_frame_only() {
    let mut out = Cursor::new(Vec::new());
    let mut w = FlacSampleWriter::new(&mut out, Options::default(), 44100, 16, 2, None).unwrap();
    w.write(&[1, 2, 3, 4]).unwrap();
    w.write(&[5]).unwrap(); // trailing half PCM frame
    assert!(w.finalize().is_ok());
    let mut out = Cursor::new(Vec::new());
    let mut w = FlacSampleWriter::new(&mut out, Options::default(), 44100, 16, 2, None).unwrap();
    w.write(&[7]).unwrap(); // nothing but half a PCM frame: no audio at all
    let _ = w.finalize(); // must not panic
}
