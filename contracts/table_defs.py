from table import add, PROPERTIES

# ---------------------------------------------------------------- CRC
add("K-crc8-spec", ["C02", "C05", "C16"], "crc::verif_k::k_crc8_update_eq_spec", domain="full",
    functions=["crc::Crc8::update", "crc::Crc8::valid"],
    contract="ensures Crc8(s).update(b).0 == spec::crc8_step(s,b); valid() <=> state == 0; default state 0  -- all (s,b)", timeout=120)
add("K-crc16-spec", ["C02", "C05", "C16"], "crc::verif_k::k_crc16_update_eq_spec", domain="full",
    functions=["crc::Crc16::update", "crc::Crc16::valid"],
    contract="ensures Crc16(s).update(b).0 == spec::crc16_step(s,b); valid() <=> state == 0; default state 0  -- all (s,b)", timeout=120)



D = "decode::verif_k::"
RES_CONTRACT = ("decode::read_residuals: requires stream == RFC 9639 9.2.7 coding (method, partition order, per-partition Rice/escape/zero "
                "kind and parameter) of valid 32-bit residuals r; ensures Ok, residuals == r, exactly the coding consumed, field grammar as RFC")
for h, tier in [("k_res_valid_i32_n4_o0_m0_p1_RR", "quick"), ("k_res_valid_i32_n4_o0_m1_p2_RERZ", "quick"),
                ("k_res_valid_i32_n3_o1_m0_p1_ER", "quick"), ("k_res_valid_i32_n3_o2_m1_p0_R", "quick"),
                ("k_res_valid_i64_n3_o1_m1_p1_RE", "quick"), ("k_res_valid_i32_n2_o0_m0_p1_ZR", "quick"),
                ("k_res_valid_i32_n1_o0_m1_p0_E", "quick")]:
    add("K-" + h[2:], ["C03", "C01"], D + h, tier=tier, bound="block <= 4 samples, one instance per (count, order, method, partition order, partition kinds); all residual values and parameters",
        functions=["decode::read_residuals", "decode::read_residuals::read_block", "stream::ResidualPartitionHeader::from_reader"],
        contract=RES_CONTRACT, timeout=300)
for h, tier in [("k_res_total_i32_n1", "quick"), ("k_res_total_i32_n2", "quick"), ("k_res_total_i64_n2", "thorough"), ("k_res_total_i32_n3", "thorough")]:
    add("K-" + h[2:], ["C04", "C05"], D + h, tier=tier, bound="<= 3 residuals, predictor order <= 3; every field value, every read fault",
        functions=["decode::read_residuals", "decode::read_residuals::read_block"],
        contract="decode::read_residuals: for every field sequence and read fault: no panic; read fault => Err; coding method 2/3 => Err; "
                 "partition order with block % 2^po != 0 or (block >> po) <= order => Err", timeout=900)
PRED_CONTRACT = ("decode::predict: requires channel == warm_up ++ RFC residuals of x (x[i] - ((sum_j x[i-1-j]*c[j]) >> shift)), residuals valid; "
                 "ensures channel == x  (coefficients concrete per instance, samples and shift symbolic)")
for h, tier in [("k_predict_valid_i32_fixed1", "quick"), ("k_predict_valid_i32_fixed2", "quick"), ("k_predict_valid_i32_fixed3", "thorough"),
                ("k_predict_valid_i32_fixed4", "thorough"), ("k_predict_valid_i64_fixed2", "quick"), ("k_predict_valid_i32_lpc_a", "quick"),
                ("k_predict_valid_i32_lpc_b", "thorough"), ("k_predict_valid_i64_lpc_a", "thorough")]:
    add("K-" + h[2:], ["C03", "C01"], D + h, tier=tier, bound="block <= 6 samples; coefficient vector fixed per instance (all four FIXED predictors; three LPC vectors incl. 15-bit extremes)",
        functions=["decode::predict"], contract=PRED_CONTRACT, timeout=600)
for h in ["k_predict_total_i32_n4_o2", "k_predict_total_i64_n4_o2", "k_predict_total_i32_n3_o0"]:
    add("K-" + h[2:], ["C04"], D + h, tier="quick", bound="block <= 4, order <= 2; all sample, coefficient (15-bit) and shift values",
        functions=["decode::predict"], contract="decode::predict: never panics (no overflow) for arbitrary channel contents, 15-bit coefficients, shift <= 31", timeout=300)
SUB_CONTRACT = ("decode::read_subframe: requires stream == RFC 9639 9.2 coding of samples x (CONSTANT/VERBATIM/FIXED/LPC, wasted bits k); "
                "ensures Ok, channel[i] == x[i] << k, exactly the subframe consumed, field grammar as RFC")
for h in ["k_sub_valid_constant_w0", "k_sub_valid_constant_w", "k_sub_valid_verbatim_w0", "k_sub_valid_verbatim_w", "k_sub_valid_verbatim33",
          "k_sub_valid_fixed0", "k_sub_valid_fixed1_w", "k_sub_valid_lpc1"]:
    add("K-" + h[2:], ["C03", "C01"], D + h, tier="quick", bound="block <= 3 samples; bits-per-sample 1..32 (33 for the wide instance), wasted bits, all sample values",
        functions=["decode::read_subframe", "decode::read_fixed_subframe", "decode::read_lpc_subframe", "decode::read_residuals", "decode::predict",
                   "stream::SubframeHeader::from_reader", "stream::SubframeHeaderType::from_reader"],
        contract=SUB_CONTRACT, timeout=600)
for h, tier in [("k_sub_mod_fixed2", "quick"), ("k_sub_mod_fixed3_w", "quick"), ("k_sub_mod_fixed4", "quick"), ("k_sub_mod_fixed2_33", "quick"),
                ("k_sub_mod_lpc2_w", "thorough"), ("k_sub_mod_lpc3", "thorough"), ("k_sub_mod_lpc3_33", "thorough")]:
    add("K-" + h[2:], ["C03", "C01"], D + h, tier=tier, bound="block <= 6 samples, predictor order 2..4, coefficient vector fixed per instance",
        functions=["decode::read_subframe", "decode::read_fixed_subframe", "decode::read_lpc_subframe", "decode::predict"],
        contract=SUB_CONTRACT + "; callee read_residuals replaced by its contract (called once with the right order and slice; delivers the coded residuals or an error, which must propagate)",
        stubs=["decode::read_residuals (contract discharged by K-res_valid_* / K-res_total_*)"], timeout=900)

for h in ["k_sub_total_const_verbatim", "k_sub_total_reserved", "k_sub_total_fixed", "k_sub_total_lpc", "k_sub_total_lpc_wide", "k_sub_total_fixed_wide"]:
    add("K-" + h[2:], ["C04", "C05"], D + h, tier="quick" if "wide" not in h else "thorough", bound="block of 3 samples; every header/field value, every read fault",
        functions=["decode::read_subframe", "decode::read_fixed_subframe", "decode::read_lpc_subframe", "stream::SubframeHeader::from_reader", "stream::SubframeHeaderType::from_reader"],
        contract="decode::read_subframe: for every field sequence and read fault: no panic; read fault => Err; pad bit 1, reserved type code, predictor order > block => Err",
        stubs=["decode::read_residuals (any result; contract discharged by K-res_total_*)"], timeout=600)
add("K-sub_wasted_excess", ["C05", "C03"], D + "k_sub_wasted_excess", tier="thorough", domain="full",
    functions=["decode::read_subframe", "stream::SubframeHeader::from_reader"],
    contract="decode::read_subframe: wasted-bits count k (any u32) with bits-per-sample b (1..32): Err(ExcessiveWastedBits) iff k >= b", timeout=900)
FR_CONTRACT = ("decode::read_subframes: requires frame body == RFC coding (verbatim subframes) of the channel pair the assignment prescribes "
               "(left/side, side/right, mid/side; side one bit wider, 33-bit path for 32-bit streams); ensures Ok, buffer == (left, right), "
               "shape == header, zero padding and 16 CRC bits consumed")
for h in ["k_frames_valid_indep_16", "k_frames_valid_ls_16", "k_frames_valid_sr_16", "k_frames_valid_ms_16", "k_frames_valid_ls_31",
          "k_frames_valid_ms_31", "k_frames_valid_ls_32", "k_frames_valid_sr_32", "k_frames_valid_ms_32"]:
    add("K-" + h[2:], ["C03", "C01"], D + h, tier="quick", bound="block of 2 PCM frames, bits-per-sample 16 / 31 / 32 per instance; all sample values",
        functions=["decode::read_subframes", "decode::read_subframe", "audio::Frame::resized_stereo", "audio::Frame::resized_channels", "stream::BitsPerSample::checked_add"],
        contract=FR_CONTRACT, timeout=300)
for h in ["k_frames_total_ls_31", "k_frames_total_sr_31", "k_frames_total_ms_31", "k_frames_total_ms_32", "k_frames_total_ls_32"]:
    add("K-" + h[2:], ["C04"], D + h, tier="quick", bound="block of 2 PCM frames; every in-width subframe content",
        functions=["decode::read_subframes"], contract="decode::read_subframes: channel reconstruction never panics (no overflow) for arbitrary decoded subframe values", timeout=300)
add("K-read_frame_contract", ["C04", "C05", "C07", "C14"], D + "k_read_frame_contract", tier="quick", domain="full",
    functions=["decode::Decoder::read_frame", "crc::CrcReader::read"],
    contract="decode::Decoder::read_frame: requires current <= total; ensures end of known-length stream => Ok(None) untouched (idempotent); "
             "Ok(Some) => header Ok, block <= remaining, (block == remaining || block > 14), subframes Ok, CRC-16 over all 3 consumed bytes == 0, "
             "position += block; otherwise Err (Ok(None) on header EOF with unknown length) and position unchanged; valid frame never rejected",
    stubs=["stream::FrameHeader::read (contract: K-hdr_* obligations)", "decode::read_subframes (contract: K-frames_*)"], timeout=300)
add("K-decoder_seek_table2", ["C06", "C04"], D + "k_decoder_seek_table2", tier="quick", bound="seek table of 2 arbitrary points; all targets and offsets",
    functions=["decode::Decoder::seek", "metadata::SeekPoint::sample_offset", "metadata::BlockList::get"],
    contract="decode::Decoder::seek: Ok(r) => r == offset of last defined point <= target (0 if none), stream at frames_start + its byte offset, "
             "current_sample == r <= target; stream seek error propagated; no overflow", timeout=300)
for h in ["k_byte_seek_arith_1x8", "k_byte_seek_arith_2x16", "k_byte_seek_arith_2x24", "k_byte_seek_arith_8x32", "k_byte_seek_arith_3x12"]:
    add("K-" + h[2:], ["C06"], D + h, tier="quick", bound="(channels, bits) fixed per instance; all totals < 2^36, positions, offsets",
        functions=["decode::FlacByteReader::seek"],
        contract="<FlacByteReader as Seek>::seek: decoder asked for floor(target_byte / bytes_per_pcm_frame), target = Start(n) | current + d | total_bytes - d, "
                 "total_bytes = total x channels x ceil(bps/8); End(+d) / below 0 => Err without moving; Current(0) reports the byte position",
        stubs=["decode::Decoder::seek (records its argument, fails)"], timeout=300)
for h in ["k_chan_seek_1ch_b0", "k_chan_seek_2ch_b1", "k_chan_seek_1ch_b2"]:
    add("K-" + h[2:], ["C06"], D + h, tier="quick" if h.endswith("b0") else "thorough", bound="abstract stream of 3 blocks x 2 samples; arbitrary well-formed reader state, landing point and target",
        functions=["decode::FlacChannelReader::seek", "decode::FlacChannelReader::fill_buf", "decode::FlacChannelReader::consume"],
        contract="FlacChannelReader::seek(t): t <= total => Ok and the next fill_buf starts at the sample at position t in every channel "
                 "(rest of t's block); t > total => Err", stubs=["decode::Decoder::read_frame (abstract stream)", "decode::Decoder::seek (lands on any block boundary <= target)"], timeout=600)
for h in ["k_chan_deliver_1ch_fresh", "k_chan_deliver_2ch_b0", "k_chan_deliver_1ch_b1", "k_chan_deliver_1ch_b2"]:
    add("K-" + h[2:], ["C07"], D + h, tier="quick", bound="abstract stream of 3 blocks x 2 samples; arbitrary well-formed reader state (so all histories)",
        functions=["decode::FlacChannelReader::fill_buf", "decode::FlacChannelReader::consume"],
        contract="FlacChannelReader: at position p fill_buf() == stream[p..end of block] per channel, consume(k) moves to p+k, end of stream is reported on every later call (nothing twice)",
        stubs=["decode::Decoder::read_frame (abstract stream)"], timeout=300)

S = "stream::verif_k::"
add("K-hdr_parse_subset_vs_rfc", ["C03", "C05", "C16", "C17", "C04"], S + "k_hdr_parse_subset_vs_rfc", domain="full",
    functions=["stream::FrameHeader::parse", "stream::FrameHeader::from_reader (FromBitStream)", "stream::BlockSize::from_reader", "stream::SampleRate::from_reader",
               "stream::ChannelAssignment::from_reader", "stream::BitsPerSample::from_reader", "stream::FrameNumber::from_reader"],
    contract="FrameHeader (subset form) on every 128-bit string: Ok(h) => RFC 9639 9.1 reading is not MustReject (no reserved block-size/rate/channel/bps code, "
             "legal number coding, block size <= 65535), no STREAMINFO reference, h == RFC values, exactly the header's bits consumed; valid self-describing header => Ok; never panics",
    timeout=300)
add("K-hdr_parse_streaminfo_vs_rfc", ["C03", "C05", "C04"], S + "k_hdr_parse_streaminfo_vs_rfc", domain="full",
    functions=["stream::FrameHeader::parse", "stream::FrameHeader::from_reader (FromBitStreamWith<Streaminfo>)"],
    contract="FrameHeader with STREAMINFO on every 128-bit string and every STREAMINFO: Ok(h) => RFC reading not MustReject, h == RFC values with references resolved, "
             "block size <= max block size, rate / channel count / bits-per-sample equal STREAMINFO; valid consistent header => Ok", timeout=300)
add("K-hdr_build_vs_rfc", ["C02", "C16", "C17"], S + "k_hdr_build_vs_rfc", domain="full",
    functions=["stream::FrameHeader::build", "stream::BlockSize::to_writer", "stream::SampleRate::to_writer", "stream::ChannelAssignment::to_writer",
               "stream::BitsPerSample::to_writer", "stream::FrameNumber::to_writer", "stream::BlockSize::try_from(u16)", "stream::SampleRate::try_from(u32)", "stream::BitsPerSample::from"],
    contract="FrameHeader::build for every constructible header (block 1..65535, rate < 2^20, bps 1..32, number < 2^36, any assignment): Ok; the bits are a Valid RFC 9639 9.1 header "
             "(sync, zero reserved bit, shortest number coding) that reads back to the same values; whole bytes <= 15; STREAMINFO references only for values without a header code",
    timeout=300)
for h, fn in [("k_hdr_read_subset_crc8_gate", "stream::FrameHeader::read_subset"), ("k_hdr_read_crc8_gate", "stream::FrameHeader::read"), ("k_hdr_write_crc8_gate", "stream::FrameHeader::write / write_subset")]:
    add("K-" + h[2:], ["C05", "C16", "C02"] if "read" in h else ["C02", "C16"], S + h, domain="full",
        functions=[fn, "crc::CrcReader::read" if "read" in h else "crc::CrcWriter::write", "crc::Crc8::update"],
        contract="CRC-8 gate: header released iff field parse Ok and CRC-8 (RFC polynomial) over exactly the header's bytes is 0" if "read" in h
        else "bytes delivered == header field bytes ++ CRC-8 (RFC polynomial) of those bytes",
        stubs=["stream::FrameHeader::parse (contract: K-hdr_parse_*)" if "read" in h else "stream::FrameHeader::build (contract: K-hdr_build_vs_rfc)"], timeout=200)


# ---------------------------------------------------------------- claimed properties
def P(pid, level, text, note, not_decided=()):
    PROPERTIES[pid] = {"level": level, "text": text, "note": note, "not_decided": list(not_decided)}

BASE_NOTE = ("Trusted: Kani/CBMC, Verus/Z3, rustc; bitstream-io under the contract in harness/bits.rs + harness/tape.rs; std, arrayvec, md5. "
             "Stubbed callees are assumptions unless the evidence names the obligation that discharges their contract.")
P("C03", "model_checking",
  "Decoder contracts against an RFC 9639 stream generator written from the RFC: frame header parse proved for all 128-bit inputs; residual, subframe and "
  "frame-body decoding proved per concrete grammar shape with all values symbolic on blocks of <= 6 samples; FIXED predictors complete, LPC for fixed coefficient vectors.",
  BASE_NOTE, ["MD5 comparison in verify_reader (Frame::to_buf out of reach)", "blocks longer than 6 samples", "LPC with symbolic coefficients (SAT cannot match multipliers; Verus lemma L-LPC covers the arithmetic)"])
P("C04", "model_checking",
  "No-panic contracts on every decode function over an arbitrary field oracle with fault injection (all field values, all truncation points) on tiny blocks; header parsing for all 128-bit inputs.",
  BASE_NOTE, ["termination (unwinding bounds only)", "peak memory", "reader front ends beyond FlacChannelReader"])
