from table import add, PROPERTIES

# ---------------------------------------------------------------- CRC
add("K-crc8-spec", ["C02", "C05", "C16"], "crc::verif_k::k_crc8_update_eq_spec", domain="full",
    functions=["crc::Crc8::update", "crc::Crc8::valid"],
    contract="ensures Crc8(s).update(b).0 == spec::crc8_step(s,b); valid() <=> state == 0; default state 0  -- all (s,b)", timeout=120)
add("K-crc16-spec", ["C02", "C05", "C16"], "crc::verif_k::k_crc16_update_eq_spec", domain="full",
    functions=["crc::Crc16::update", "crc::Crc16::valid"],
    contract="ensures Crc16(s).update(b).0 == spec::crc16_step(s,b); valid() <=> state == 0; default state 0  -- all (s,b)", timeout=120)



D = "decode::verif_k::"
RES_CONTRACT = ("decode::read_residuals: requires stream == RFC 9639 9.2.7 coding (method, partition order, per-partition Rice/escape/zero "
                "kind and parameter) of valid 32-bit residuals r; ensures Ok, residuals == r, exactly the coding consumed, field grammar as RFC")
for h, tier in [("k_res_valid_i32_n4_o0_m0_p1_RR", "quick"), ("k_res_valid_i32_n4_o0_m1_p2_RERZ", "quick"),
                ("k_res_valid_i32_n3_o1_m0_p1_ER", "quick"), ("k_res_valid_i32_n3_o2_m1_p0_R", "quick"),
                ("k_res_valid_i64_n3_o1_m1_p1_RE", "quick"), ("k_res_valid_i32_n2_o0_m0_p1_ZR", "quick"),
                ("k_res_valid_i32_n1_o0_m1_p0_E", "quick")]:
    add("K-" + h[2:], ["C03", "C01"], D + h, tier=tier, bound="block <= 4 samples, one instance per (count, order, method, partition order, partition kinds); all residual values and parameters",
        functions=["decode::read_residuals", "decode::read_residuals::read_block", "stream::ResidualPartitionHeader::from_reader"],
        contract=RES_CONTRACT, timeout=300)
for h, tier in [("k_res_total_i32_n1", "quick"), ("k_res_total_i32_n2", "quick"), ("k_res_total_i64_n2", "thorough"), ("k_res_total_i32_n3", "thorough")]:
    add("K-" + h[2:], ["C04", "C05", "C13"], D + h, tier=tier, bound="<= 3 residuals, predictor order <= 3; every field value, every read fault",
        functions=["decode::read_residuals", "decode::read_residuals::read_block"],
        contract="decode::read_residuals: for every field sequence and read fault: no panic; read fault => Err; coding method 2/3 => Err; "
                 "partition order with block % 2^po != 0 or (block >> po) <= order => Err", timeout=900)
PRED_CONTRACT = ("decode::predict: requires channel == warm_up ++ RFC residuals of x (x[i] - ((sum_j x[i-1-j]*c[j]) >> shift)), residuals valid; "
                 "ensures channel == x  (coefficients concrete per instance, samples and shift symbolic)")
for h, tier in [("k_predict_valid_i32_fixed1", "quick"), ("k_predict_valid_i32_fixed2", "quick"), ("k_predict_valid_i32_fixed3", "thorough"),
                ("k_predict_valid_i32_fixed4", "thorough"), ("k_predict_valid_i64_fixed2", "quick"), ("k_predict_valid_i32_lpc_a", "quick"),
                ("k_predict_valid_i32_lpc_b", "thorough"), ("k_predict_valid_i64_lpc_a", "thorough")]:
    add("K-" + h[2:], ["C03", "C01"], D + h, tier=tier, bound="block <= 6 samples; coefficient vector fixed per instance (all four FIXED predictors; three LPC vectors incl. 15-bit extremes)",
        functions=["decode::predict"], contract=PRED_CONTRACT, timeout=600)
for h in ["k_predict_total_i32_n4_o2", "k_predict_total_i64_n4_o2", "k_predict_total_i32_n3_o0"]:
    add("K-" + h[2:], ["C04"], D + h, tier="quick", bound="block <= 4, order <= 2; all sample, coefficient (15-bit) and shift values",
        functions=["decode::predict"], contract="decode::predict: never panics (no overflow) for arbitrary channel contents, 15-bit coefficients, shift <= 31", timeout=300)
SUB_CONTRACT = ("decode::read_subframe: requires stream == RFC 9639 9.2 coding of samples x (CONSTANT/VERBATIM/FIXED/LPC, wasted bits k); "
                "ensures Ok, channel[i] == x[i] << k, exactly the subframe consumed, field grammar as RFC")
for h in ["k_sub_valid_constant_w0", "k_sub_valid_constant_w", "k_sub_valid_verbatim_w0", "k_sub_valid_verbatim_w", "k_sub_valid_verbatim33",
          "k_sub_valid_fixed0", "k_sub_valid_fixed1_w", "k_sub_valid_lpc1"]:
    add("K-" + h[2:], ["C03", "C01"], D + h, tier="quick", bound="block <= 3 samples; bits-per-sample 1..32 (33 for the wide instance), wasted bits, all sample values",
        functions=["decode::read_subframe", "decode::read_fixed_subframe", "decode::read_lpc_subframe", "decode::read_residuals", "decode::predict",
                   "stream::SubframeHeader::from_reader", "stream::SubframeHeaderType::from_reader"],
        contract=SUB_CONTRACT, timeout=600)
for h, tier in [("k_sub_mod_fixed2", "quick"), ("k_sub_mod_fixed3_w", "thorough"), ("k_sub_mod_fixed4", "quick"), ("k_sub_mod_fixed2_33", "quick"),
                ("k_sub_mod_lpc2_w", "thorough"), ("k_sub_mod_lpc3", "thorough"), ("k_sub_mod_lpc3_33", "thorough")]:
    add("K-" + h[2:], ["C03", "C01"], D + h, tier=tier, bound="block <= 6 samples, predictor order 2..4, coefficient vector fixed per instance",
        functions=["decode::read_subframe", "decode::read_fixed_subframe", "decode::read_lpc_subframe", "decode::predict"],
        contract=SUB_CONTRACT + "; callee read_residuals replaced by its contract (called once with the right order and slice; delivers the coded residuals or an error, which must propagate)",
        stubs=["decode::read_residuals (contract discharged by K-res_valid_* / K-res_total_*)"], timeout=900)

for h in ["k_sub_total_const_verbatim", "k_sub_total_reserved", "k_sub_total_fixed", "k_sub_total_lpc", "k_sub_total_lpc_wide", "k_sub_total_fixed_wide"]:
    add("K-" + h[2:], ["C04", "C05", "C13"], D + h, tier="quick" if "wide" not in h else "thorough", bound="block of 3 samples; every header/field value, every read fault",
        functions=["decode::read_subframe", "decode::read_fixed_subframe", "decode::read_lpc_subframe", "stream::SubframeHeader::from_reader", "stream::SubframeHeaderType::from_reader"],
        contract="decode::read_subframe: for every field sequence and read fault: no panic; read fault => Err; pad bit 1, reserved type code, predictor order > block => Err",
        stubs=["decode::read_residuals (any result; contract discharged by K-res_total_*)"], timeout=600)
add("K-sub_wasted_excess", ["C05", "C03"], D + "k_sub_wasted_excess", tier="thorough", domain="full",
    functions=["decode::read_subframe", "stream::SubframeHeader::from_reader"],
    contract="decode::read_subframe: wasted-bits count k (any u32) with bits-per-sample b (1..32): Err(ExcessiveWastedBits) iff k >= b", timeout=900)
FR_CONTRACT = ("decode::read_subframes: requires frame body == RFC coding (verbatim subframes) of the channel pair the assignment prescribes "
               "(left/side, side/right, mid/side; side one bit wider, 33-bit path for 32-bit streams); ensures Ok, buffer == (left, right), "
               "shape == header, zero padding and 16 CRC bits consumed")
for h in ["k_frames_valid_indep_16", "k_frames_valid_ls_16", "k_frames_valid_sr_16", "k_frames_valid_ms_16", "k_frames_valid_ls_31",
          "k_frames_valid_ms_31", "k_frames_valid_ls_32", "k_frames_valid_sr_32", "k_frames_valid_ms_32"]:
    add("K-" + h[2:], ["C03", "C01"], D + h, tier="quick", bound="block of 2 PCM frames, bits-per-sample 16 / 31 / 32 per instance; all sample values",
        functions=["decode::read_subframes", "decode::read_subframe", "audio::Frame::resized_stereo", "audio::Frame::resized_channels", "stream::BitsPerSample::checked_add"],
        contract=FR_CONTRACT, timeout=300)
for h in ["k_frames_total_ls_31", "k_frames_total_sr_31", "k_frames_total_ms_31", "k_frames_total_ms_32", "k_frames_total_ls_32"]:
    add("K-" + h[2:], ["C04"], D + h, tier="quick", bound="block of 2 PCM frames; every in-width subframe content",
        functions=["decode::read_subframes"], contract="decode::read_subframes: channel reconstruction never panics (no overflow) for arbitrary decoded subframe values", timeout=300)
add("K-read_frame_contract", ["C04", "C05", "C07", "C14"], D + "k_read_frame_contract", tier="quick", domain="full",
    functions=["decode::Decoder::read_frame", "crc::CrcReader::read"],
    contract="decode::Decoder::read_frame: requires current <= total; ensures end of known-length stream => Ok(None) untouched (idempotent); "
             "Ok(Some) => header Ok, block <= remaining, (block == remaining || block > 14), subframes Ok, CRC-16 over all 3 consumed bytes == 0, "
             "position += block; otherwise Err (Ok(None) on header EOF with unknown length) and position unchanged; valid frame never rejected",
    stubs=["stream::FrameHeader::read (contract: K-hdr_* obligations)", "decode::read_subframes (contract: K-frames_*)"], timeout=300)
add("K-decoder_seek_table2", ["C06", "C04"], D + "k_decoder_seek_table2", tier="quick", bound="seek table of 2 arbitrary points; all targets and offsets",
    functions=["decode::Decoder::seek", "metadata::SeekPoint::sample_offset", "metadata::BlockList::get"],
    contract="decode::Decoder::seek: Ok(r) => r == offset of last defined point <= target (0 if none), stream at frames_start + its byte offset, "
             "current_sample == r <= target; stream seek error propagated; no overflow", timeout=300)
for h in ["k_byte_seek_arith_1x8", "k_byte_seek_arith_2x16", "k_byte_seek_arith_2x24", "k_byte_seek_arith_8x32", "k_byte_seek_arith_3x12"]:
    add("K-" + h[2:], ["C06"], D + h, tier="quick", bound="(channels, bits) fixed per instance; all totals < 2^36, positions, offsets",
        functions=["decode::FlacByteReader::seek"],
        contract="<FlacByteReader as Seek>::seek: decoder asked for floor(target_byte / bytes_per_pcm_frame), target = Start(n) | current + d | total_bytes - d, "
                 "total_bytes = total x channels x ceil(bps/8); End(+d) / below 0 => Err without moving; Current(0) reports the byte position",
        stubs=["decode::Decoder::seek (records its argument, fails)"], timeout=300)
for h in ["k_chan_seek_1ch_b0", "k_chan_seek_2ch_b1", "k_chan_seek_1ch_b2"]:
    add("K-" + h[2:], ["C06"], D + h, tier="quick" if h.endswith("b0") else "thorough", bound="abstract stream of 3 blocks x 2 samples; arbitrary well-formed reader state, landing point and target",
        functions=["decode::FlacChannelReader::seek", "decode::FlacChannelReader::fill_buf", "decode::FlacChannelReader::consume"],
        contract="FlacChannelReader::seek(t): t <= total => Ok and the next fill_buf starts at the sample at position t in every channel "
                 "(rest of t's block); t > total => Err", stubs=["decode::Decoder::read_frame (abstract stream)", "decode::Decoder::seek (lands on any block boundary <= target)"], timeout=600)
for h in ["k_chan_deliver_1ch_fresh", "k_chan_deliver_2ch_b0", "k_chan_deliver_1ch_b1", "k_chan_deliver_1ch_b2"]:
    add("K-" + h[2:], ["C07"], D + h, tier="quick", bound="abstract stream of 3 blocks x 2 samples; arbitrary well-formed reader state (so all histories)",
        functions=["decode::FlacChannelReader::fill_buf", "decode::FlacChannelReader::consume"],
        contract="FlacChannelReader: at position p fill_buf() == stream[p..end of block] per channel, consume(k) moves to p+k, end of stream is reported on every later call (nothing twice)",
        stubs=["decode::Decoder::read_frame (abstract stream)"], timeout=300)

S = "stream::verif_k::"
add("K-hdr_parse_subset_vs_rfc", ["C03", "C05", "C16", "C17", "C04"], S + "k_hdr_parse_subset_vs_rfc", domain="full",
    functions=["stream::FrameHeader::parse", "stream::FrameHeader::from_reader (FromBitStream)", "stream::BlockSize::from_reader", "stream::SampleRate::from_reader",
               "stream::ChannelAssignment::from_reader", "stream::BitsPerSample::from_reader", "stream::FrameNumber::from_reader"],
    contract="FrameHeader (subset form) on every 128-bit string: Ok(h) => RFC 9639 9.1 reading is not MustReject (no reserved block-size/rate/channel/bps code, "
             "legal number coding, block size <= 65535), no STREAMINFO reference, h == RFC values, exactly the header's bits consumed; valid self-describing header => Ok; never panics",
    timeout=300)
add("K-hdr_parse_streaminfo_vs_rfc", ["C03", "C05", "C04"], S + "k_hdr_parse_streaminfo_vs_rfc", domain="full",
    functions=["stream::FrameHeader::parse", "stream::FrameHeader::from_reader (FromBitStreamWith<Streaminfo>)"],
    contract="FrameHeader with STREAMINFO on every 128-bit string and every STREAMINFO: Ok(h) => RFC reading not MustReject, h == RFC values with references resolved, "
             "block size <= max block size, rate / channel count / bits-per-sample equal STREAMINFO; valid consistent header => Ok", timeout=300)
add("K-hdr_build_vs_rfc", ["C02", "C16", "C17"], S + "k_hdr_build_vs_rfc", domain="full",
    functions=["stream::FrameHeader::build", "stream::BlockSize::to_writer", "stream::SampleRate::to_writer", "stream::ChannelAssignment::to_writer",
               "stream::BitsPerSample::to_writer", "stream::FrameNumber::to_writer", "stream::BlockSize::try_from(u16)", "stream::SampleRate::try_from(u32)", "stream::BitsPerSample::from"],
    contract="FrameHeader::build for every constructible header (block 1..65535, rate < 2^20, bps 1..32, number < 2^36, any assignment): Ok; the bits are a Valid RFC 9639 9.1 header "
             "(sync, zero reserved bit, shortest number coding) that reads back to the same values; whole bytes <= 15; STREAMINFO references only for values without a header code",
    timeout=300)
for h, fn in [("k_hdr_read_subset_crc8_gate", "stream::FrameHeader::read_subset"), ("k_hdr_read_crc8_gate", "stream::FrameHeader::read"), ("k_hdr_write_crc8_gate", "stream::FrameHeader::write / write_subset")]:
    add("K-" + h[2:], ["C05", "C16", "C02"] if "read" in h else ["C02", "C16"], S + h, domain="full",
        functions=[fn, "crc::CrcReader::read" if "read" in h else "crc::CrcWriter::write", "crc::Crc8::update"],
        contract="CRC-8 gate: header released iff field parse Ok and CRC-8 (RFC polynomial) over exactly the header's bytes is 0" if "read" in h
        else "bytes delivered == header field bytes ++ CRC-8 (RFC polynomial) of those bytes",
        stubs=["stream::FrameHeader::parse (contract: K-hdr_parse_*)" if "read" in h else "stream::FrameHeader::build (contract: K-hdr_build_vs_rfc)"], timeout=200)


# ---------------------------------------------------------------- claimed properties
def P(pid, level, text, note, not_decided=()):
    PROPERTIES[pid] = {"level": level, "text": text, "note": note, "not_decided": list(not_decided)}

BASE_NOTE = ("Trusted: Kani/CBMC, Verus/Z3, rustc; bitstream-io under the contract in harness/bits.rs + harness/tape.rs; std, arrayvec, md5. "
             "Stubbed callees are assumptions unless the evidence names the obligation that discharges their contract.")


E = "encode::verif_k::"
for h, tier in [("k_enc_residuals_n3_o1", "quick"), ("k_enc_residuals_n4_o2", "quick"), ("k_enc_residuals_n4_o3", "thorough")]:
    add("K-" + h[2:], ["C01", "C02"], E + h, tier=tier, bound="block <= 4, order <= 3; all 32-bit samples, 15-bit coefficients, shifts <= 31",
        functions=["encode::LpcSubframeParameters::encode_residuals"],
        contract="encode_residuals: Ok => warm_up == x[..order], res[i] == x[order+i] - ((sum_j x[order+i-1-j]*c[j]) >> shift) exactly; Err(ResidualOverflow) only when such a residual does not fit i32",
        timeout=600)
for h in ["k_correlate_fast_ms", "k_correlate_fast_noms"]:
    add("K-" + h[2:], ["C01", "C02"], E + h, tier="quick", bound="2 PCM frames (the function treats every index alike); bits-per-sample 1..32, all values",
        functions=["encode::correlate_channels"],
        contract="correlate_channels: returned slices are (left,right) / (left, l-r) / (l-r, right) / ((l+r)>>1, l-r) for the returned assignment, side channel at bps+1, "
                 "32-bit input never decorrelated, mid/side only when enabled, all_0 flags truthful", timeout=300)
for h, tier in [("k_write_res_po0_n2_o0", "thorough"), ("k_write_res_po0_n1_o1_rice2", "thorough")]:
    add("K-" + h[2:], ["C02", "C01"], E + h, tier=tier, bound="<= 2 residuals, max partition order 0; all residual values; log2 under an interval contract",
        functions=["encode::write_residuals", "encode::write_residuals::Partition::new", "encode::write_residuals::Partition::to_writer",
                   "encode::write_residuals::best_partitions", "encode::write_residuals::write_partitions", "encode::write_residuals::try_reduce_rice",
                   "stream::ResidualPartitionHeader::to_writer"],
        contract="write_residuals (po 0): Ok => fields are method (0, or 1 only with use_rice2), partition order 0, one partition that is the RFC 9639 9.2.7 coding of exactly "
                 "the residuals given (Rice k < escape: unary(zigzag>>k) + k low bits; escape + width w: every residual fits w bits; width 0: all zero); no residual of -2^31 is ever written; never panics",
        stubs=["f64::log2 (interval contract: ceil(log2 x) +/- 1)", "f64::ceil (identity on the pre-rounded value)"], timeout=900)
for h, tier in [("k_enc_select_odd_lpc", "thorough"), ("k_enc_select_odd_nolpc", "quick"), ("k_enc_select_zero", "quick"), ("k_enc_select_odd_12bit", "quick")]:
    add("K-" + h[2:], ["C19", "C01", "C02"], E + h, tier=tier, bound="concrete 3-sample channels (odd values, common trailing zeros, all zero); candidate sizes from the boundary set {9,10,47,48,49,120} bits, failures symbolic",
        functions=["encode::encode_subframe", "encode::encode_verbatim_subframe", "encode::encode_constant_subframe"],
        contract="encode_subframe: result.written() <= 8 + k + n*(bps-k) (the VERBATIM size, k = wasted bits); all-zero => CONSTANT of 8+bps bits; candidates receive samples>>k at bps-k with wasted=k; "
                 "a candidate is chosen only when strictly smaller than n*(bps-k); both failing => VERBATIM",
        stubs=["encode::encode_fixed_subframe (writes some bits or fails)", "encode::encode_lpc_subframe (writes some bits or fails)"], timeout=900)
for h, tier in [("k_enc_fixed_n1", "quick"), ("k_enc_fixed_n3", "quick"), ("k_enc_fixed_n4", "thorough")]:
    add("K-" + h[2:], ["C02", "C01", "C19"], E + h, tier=tier, bound="block <= 4; bits-per-sample 1..32, wasted 0..3, all sample values",
        functions=["encode::encode_fixed_subframe", "stream::SubframeHeader::to_writer", "stream::SubframeHeaderType::to_writer"],
        contract="encode_fixed_subframe: header FIXED(k) with wasted-bits field, first k samples at bps bits, then write_residuals(k, r) with r == RFC 9639 9.2.5 residuals "
                 "of the order-k fixed predictor; k <= 4 and k < n; never panics; a block of equal samples reaches the residual coder as all-zero residuals (C19 constant-block clause)", stubs=["encode::write_residuals (contract: K-write_res_po0_*)"], timeout=900)

add("K-options_setters", ["C15"], E + "k_options_setters", domain="full", functions=["encode::Options::block_size", "encode::Options::max_lpc_order", "encode::Options::max_partition_order"],
    contract="Options setters: Ok iff block size >= 16 / LPC order None or 1..=32 / partition order <= 15, value stored; never panic", timeout=300)
add("K-seek_placeholders", ["C09"], E + "k_seek_placeholders", bound="streams of <= 4 blocks; all block sizes >= 16 and totals",
    functions=["encode::EncoderSeekPoint::placeholders", "encode::EncoderSeekPoint::range"],
    contract="placeholders(total, block): points at 0, b, 2b.. < total, length min(b, total-start), one per block", timeout=600)
add("K-seek_filter", ["C09"], E + "k_seek_filter", bound="4 consecutive points; all block sizes, intervals, rates",
    functions=["encode::SeekTableInterval::filter"],
    contract="filter: Frames(n) keeps points 0,n,2n..; Seconds(s) keeps a point iff its frame contains the next multiple of s*rate; strictly ascending; first frame always kept", timeout=600)

M = "metadata::verif_k::"
add("K-streaminfo_roundtrip", ["C11", "C12", "C15", "C14"], M + "k_streaminfo_roundtrip_all_bits", domain="full",
    functions=["metadata::Streaminfo::from_reader", "metadata::Streaminfo::to_writer", "metadata::MetadataBlock::bytes"],
    contract="STREAMINFO, all 272-bit strings: parse never fails or panics, every field equals its RFC 9639 8.2 bit slice (0 => None, depth/channels code+1, zero MD5 => None); "
             "serialising the parsed value reproduces the 34 bytes; bytes() == 34", timeout=600)
add("K-block_header_roundtrip", ["C11", "C12"], M + "k_block_header_roundtrip_all_bits", domain="full",
    functions=["metadata::BlockHeader::from_reader", "metadata::BlockHeader::to_writer", "metadata::BlockType::from_reader", "metadata::BlockType::to_writer", "metadata::BlockSize::from_reader"],
    contract="metadata block header, all 32-bit strings: Ok iff type <= 6; fields == bit slices; serialises back to the same 4 bytes", timeout=200)
add("K-seekpoint_roundtrip", ["C11", "C12"], M + "k_seekpoint_roundtrip_all_bits", domain="full",
    functions=["metadata::SeekPoint::from_reader", "metadata::SeekPoint::to_writer"],
    contract="seek point, all 144-bit strings: placeholder iff sample number all ones; defined points reproduce byte for byte", timeout=300)
add("K-seekpoint_build_parse", ["C11"], M + "k_seekpoint_build_parse", domain="full", functions=["metadata::SeekPoint::to_writer", "metadata::SeekPoint::from_reader"],
    contract="every seek point value that serialises parses back to the same value", timeout=300)
add("K-seekpoint_is_next", ["C11", "C09"], M + "k_seekpoint_is_next", domain="full", functions=["metadata::SeekPoint::is_next", "metadata::SeekPoint::valid_first"],
    contract="adjacency rule used by SEEKTABLE reader and writer: strictly ascending sample numbers, placeholders only after defined points", timeout=100)
add("K-blocksize_arith", ["C11", "C12"], M + "k_blocksize_arith", domain="full",
    functions=["metadata::BlockSize::checked_add", "metadata::BlockSize::checked_sub", "metadata::BlockSize::try_from", "metadata::Padding::bytes", "metadata::MetadataBlock::total_size"],
    contract="BlockSize arithmetic exact within 24 bits, None outside; PADDING bytes()/total_size() == size / size + 4", timeout=200)
add("K-blockbits_counter", ["C11", "C12"], M + "k_blockbits_counter", domain="full", functions=["metadata::BlockBits::checked_add_assign", "metadata::BlockBits::checked_mul", "metadata::BlockBits::try_from"],
    contract="block bit counter overflows exactly when the byte count leaves 24 bits", timeout=100)
add("K-metadata_accessors", ["C12"], M + "k_metadata_accessors", bound="sample rate from {0, 1, 44100, 96000, 2^20-1}; all totals, channel counts, depths",
    functions=["metadata::Metadata::decoded_len", "metadata::Metadata::duration", "metadata::ChannelMask::from_channels"],
    contract="decoded_len == samples*channels*ceil(bps/8); duration seconds == samples/rate, None for rate 0 or unknown total; default mask has one bit per channel; never panic", timeout=600)
add("K-picture_png_total", ["C12"], M + "k_picture_png_total", bound="all 33-byte inputs after the PNG signature", functions=["metadata::PictureMetrics::try_png"],
    contract="try_png never panics; depth == bit depth x channels, width from IHDR", timeout=300)
add("K-picture_gif_total", ["C12"], M + "k_picture_gif_total", bound="all 11-byte inputs", functions=["metadata::PictureMetrics::try_gif"], contract="try_gif never panics", timeout=300)

B = "byteorder::verif_k::"
for h in ["k_little_endian_samples", "k_big_endian_samples"]:
    add("K-" + h[2:], ["C07", "C08"], B + h, domain="full", functions=["byteorder::%s::{i8,i16,i24,i32}_to_bytes / bytes_to_*" % ("LittleEndian" if "little" in h else "BigEndian")],
        contract="sample <-> byte image: two's complement at the sample's byte width in the stated order; mutual inverses; 24-bit sign extension", timeout=100)
add("K-byte_order_swap", ["C07", "C08"], B + "k_byte_order_swap", bound="6-byte buffers, widths 1..3", functions=["byteorder::Endianness::bytes_to_le / bytes_to_be"],
    contract="byte-order conversion reverses each sample's bytes or is the identity", timeout=200)

add("K-counter", ["C09", "C13", "C14"], "verif_k::k_counter_counts_accepted_bytes", domain="full", functions=["Counter::write", "Counter::read"],
    contract="Counter: count advances by exactly the bytes the inner stream accepted / delivered (short writes!), unchanged on error", timeout=100)
add("K-crc_rw_fold", ["C02", "C05", "C16", "C13"], "crc::verif_k::k_crc_reader_writer_fold", bound="buffers of <= 3 bytes; all contents, short reads/writes, failures",
    functions=["crc::CrcReader::read", "crc::CrcWriter::write", "crc::CrcReader::into_checksum", "crc::CrcWriter::into_checksum"],
    contract="CRC reader/writer fold Checksum::update over exactly the bytes transferred; failed transfers leave the checksum unchanged", timeout=200)

for h in ["k_encoder_encode_declared", "k_encoder_encode_undeclared"]:
    add("K-" + h[2:], ["C09", "C14", "C15"], E + h, domain="full", functions=["encode::Encoder::encode"],
        contract="Encoder::encode: pushes exactly one seek point (samples written before, bytes written before, frame length), samples_written += frame length, "
                 "a frame that would pass a declared total => Err(ExcessiveTotalSamples) before anything is written, never seeks (append-only)",
        stubs=["encode::encode_frame (frame writer; succeeds)"], timeout=200)
add("K-chan_error_no_stale", ["C14", "C07", "C05"], D + "k_chan_error_no_stale", bound="abstract stream; error at the second block",
    functions=["decode::FlacChannelReader::fill_buf"],
    contract="FlacChannelReader::fill_buf: after a failed read the next call fails or delivers the next block; the previously buffered frame is never handed out again",
    stubs=["decode::Decoder::read_frame (abstract stream, fails once)"], timeout=300)

# ================================================================= Verus obligations
from table import O, OBLIGATIONS

def vadd(id, props, parts, fns, contract, functions, domain="full", bound="", tier="quick", assumes=()):
    OBLIGATIONS.append(O(id, props, backend="verus", harness=id, tier=tier, domain=domain, bound=bound, functions=functions,
                         contract=contract, verus_parts=parts, verus_fns=fns, timeout=300, assumes=assumes))

ERR = {"kind": "text", "text": "#[derive(Debug)]\npub enum Error { InvalidBlockSize, InvalidSampleRate, ExcessiveFrameNumber, InvalidChannels }\n"}
STREAM = "src/stream.rs"

vadd("V-crc-lemmas", ["C05", "C16", "C02"],
     [{"kind": "file", "path": "crc.rs"},
      {"kind": "fn", "file": "/verif/spec/spec.rs", "fn": "crc8_step", "subst": [(r"^pub fn crc8_step\(state: u8, byte: u8\) -> u8", "pub fn crc8_step_exec(state: u8, byte: u8) -> (r: u8)")],
       "contract": "    ensures r == crc8_step(state, byte)"},
      {"kind": "fn", "file": "/verif/spec/spec.rs", "fn": "crc16_step", "subst": [(r"^pub fn crc16_step\(state: u16, byte: u8\) -> u16", "pub fn crc16_step_exec(state: u16, byte: u8) -> (r: u16)")],
       "contract": "    ensures r == crc16_step(state, byte)"}],
     ["crc16_detects_single_byte_change", "crc8_detects_single_byte_change", "crc16_state_diff", "crc8_step_exec", "crc16_step_exec"],
     "L-CRC16 / L-CRC8 (unbounded): byte strings of equal length that differ in one byte (e.g. one flipped bit) have different CRC-16 / CRC-8 from any start state, "
     "so at most one of them checks; the executable spec functions of spec/spec.rs (to which K-crc8-spec / K-crc16-spec tie Crc8::update / Crc16::update) equal the Verus definitions",
     ["spec::crc8_step", "spec::crc16_step", "(via K-crc*-spec) crc::Crc8::update, crc::Crc16::update"])

vadd("V-arith-lemmas", ["C01", "C02", "C03"],
     [{"kind": "file", "path": "lemmas.rs"},
      {"kind": "fn", "file": "/verif/spec/spec.rs", "fn": "zigzag", "subst": [(r"^pub fn zigzag\(r: i64\) -> u64", "pub fn zigzag_exec(r: i64) -> (z: u64)")],
       "contract": "    requires -0x1_0000_0000 <= r < 0x1_0000_0000\n    ensures z as int == zigzag(r as int)"},
      {"kind": "fn", "file": "/verif/spec/spec.rs", "fn": "unzigzag", "subst": [(r"^pub fn unzigzag\(u: u64\) -> i64", "pub fn unzigzag_exec(u: u64) -> (r: i64)")],
       "contract": "    requires u <= 0x1_FFFF_FFFF\n    ensures r as int == unzigzag(u as int)"}],
     ["l_zz_inverse", "l_zz_inverse2", "l_zz_range", "l_mix_ms", "l_mix_ls", "l_mix_sr", "l_mix_width", "l_lpc_inverse", "l_part_total", "l_part_encoder_filter", "zigzag_exec", "unzigzag_exec"],
     "L-ZZ (Rice folding is a bijection; valid residual <=> folded value <= 2^32-2), L-MIX (left/side, side/right, mid/side are invertible; side needs one more bit), "
     "L-LPC (for ANY predictor, restoring from warm-up + residuals returns the samples: every order, coefficient vector and shift), L-PART (a legal partition layout covers "
     "exactly block - order residuals with non-empty partitions; cutting from the end into chunks of block/2^po yields 2^po chunks iff order < block/2^po) -- all unbounded",
     ["spec::zigzag", "spec::unzigzag"],
     assumes=["L-LPC/L-MIX/L-PART are spec-level; their links to the code are the bounded Kani obligations K-predict_valid_*, K-enc_residuals_*, K-correlate_*, K-frames_valid_*, K-res_*"])

BS_ENUM = {"kind": "item", "file": STREAM, "header": r"pub enum BlockSize<B> \{", "prefix": "#[derive(Copy, Clone, Debug, Eq, PartialEq)]\n#[verifier::allow(autoderive_clone_without_spec)]\n"}
SR_ENUM = {"kind": "item", "file": STREAM, "header": r"pub enum SampleRate<R> \{", "prefix": "#[derive(Copy, Clone, Debug, Eq, PartialEq)]\n#[verifier::allow(autoderive_clone_without_spec)]\n"}
vadd("V-blocksize-tables", ["C02", "C03", "C16", "C04"],
     [ERR, BS_ENUM, {"kind": "file", "path": "tables.rs"}, SR_ENUM,
      {"kind": "fn", "file": STREAM, "container": r"impl TryFrom<u16> for BlockSize<u16> \{", "fn": "try_from",
       "subst": [(r"\bSelf::", "BlockSize::"), (r"Result<Self, Error>", "(r: Result<BlockSize<u16>, Error>)"), (r"^fn try_from", "fn block_size_try_from")],
       "contract": "    ensures size == 0 ==> r.is_err(),\n            size != 0 ==> r.is_ok() && bs_value(r.unwrap()) == size && bs_wf(r.unwrap()),"},
      {"kind": "fn", "file": STREAM, "container": r"impl From<BlockSize<u16>> for u16 \{", "fn": "from",
       "subst": [(r"-> Self", "-> (r: u16)"), (r"^fn from", "fn u16_from_block_size")],
       "contract": "    ensures r as int == bs_value(size)"},
      {"kind": "text", "text": "fn block_size_roundtrip(n: u16) requires n != 0 { let b = block_size_try_from(n); match b { Ok(b) => { let m = u16_from_block_size(b); assert(m == n); } Err(_) => { assert(false); } } }\n"}],
     ["block_size_try_from", "u16_from_block_size", "block_size_roundtrip"],
     "BlockSize<u16>::try_from(n): Err iff n == 0; otherwise a code whose value is n and whose trailing field (n-1 in 8 or 16 bits) can hold it; u16::from(code) == value; "
     "hence every block size 1..=65535 survives encode -> header code -> decode, and no block exceeds 65535 samples (allocation bound)",
     ["stream::BlockSize<u16>::try_from(u16)", "u16::from(stream::BlockSize<u16>)"])

vadd("V-samplerate-tables", ["C02", "C16"],
     [ERR, SR_ENUM, BS_ENUM, {"kind": "file", "path": "tables.rs"},
      {"kind": "fn", "file": STREAM, "container": r"impl TryFrom<u32> for SampleRate<u32> \{", "fn": "try_from",
       "subst": [(r"\bSelf::", "SampleRate::"), (r"Result<Self, Error>", "(r: Result<SampleRate<u32>, Error>)"), (r"^fn try_from", "fn sample_rate_try_from"), (r"rate < 1 << 20", "rate < 1048576")],
       "expect": ["rate < 1 << 20"],
       "contract": "    ensures sample_rate >= 1048576 ==> r.is_err(),\n            sample_rate < 1048576 ==> r.is_ok() && sr_value(r.unwrap()) == sample_rate && sr_wf(r.unwrap()),"},
      {"kind": "fn", "file": STREAM, "container": r"impl From<SampleRate<u32>> for u32 \{", "fn": "from",
       "subst": [(r"-> Self", "-> (r: u32)"), (r"^fn from", "fn u32_from_sample_rate")],
       "contract": "    ensures r as int == sr_value(rate)"}],
     ["sample_rate_try_from", "u32_from_sample_rate"],
     "SampleRate<u32>::try_from(r): Err iff r >= 2^20; otherwise a code whose value is r and that is representable in the field the code announces (kHz in 8 bits, Hz / tens of Hz in 16 bits), "
     "STREAMINFO reference only otherwise; u32::from(code) == value",
     ["stream::SampleRate<u32>::try_from(u32)", "u32::from(stream::SampleRate<u32>)"],
     assumes=["textual substitution `1 << 20` -> `1048576` in the extracted guard (Verus does not evaluate the shift); the original text is checked to be present"])

vadd("V-frame-number", ["C16", "C02"],
     [ERR, {"kind": "text", "text": "pub struct FrameNumber(pub u64);\nconst MAX_FRAME_NUMBER: u64 = 68719476735;\n"},
      {"kind": "fn", "file": STREAM, "container": r"impl FrameNumber \{", "fn": "try_increment",
       "new_sig": "pub fn try_increment(this: &mut FrameNumber) -> (r: Result<(), Error>)",
       "subst": [(r"\bself\.0", "this.0"), (r"Self::MAX_FRAME_NUMBER", "MAX_FRAME_NUMBER")],
       "expect": ["Self::MAX_FRAME_NUMBER"],
       "contract": "    ensures old(this).0 < 0xF_FFFF_FFFF ==> r.is_ok() && final(this).0 == old(this).0 + 1,\n            old(this).0 >= 0xF_FFFF_FFFF ==> r.is_err() && final(this).0 == old(this).0,"}],
     ["try_increment"],
     "FrameNumber::try_increment: below 2^36-1 the number grows by exactly one (frames are numbered consecutively); at 2^36-1 it fails and leaves the number unchanged, never wraps silently",
     ["stream::FrameNumber::try_increment"],
     assumes=["the constant MAX_FRAME_NUMBER = (1 << 36) - 1 is restated as 68719476735 (checked by K-hdr_build_vs_rfc, which accepts numbers up to 2^36-1 only)"])


# ================================================================= claimed properties
P("C01", "model_checking",
  "Lossless = (encoder emits the RFC coding of what it was given, for every parameter choice) o (decoder inverts every RFC coding). Both halves are contract obligations on the real "
  "functions against one RFC 9639 generator/reference written from the RFC: residual computation (fixed and LPC, exact), stereo decorrelation both ways, Rice/escape residual coding at "
  "partition order 0, subframe and frame-body decoding, wasted bits, verbatim fallback; tiny blocks, all sample values. Unbounded Verus lemmas (any predictor is invertible, mid/side "
  "invertible, Rice folding bijective, partition layout) carry the arithmetic to every block length.",
  BASE_NOTE, ["the partition search of best_partitions (CBMC runs out of memory even on a 4-sample block); its acceptance rule is V-part-encoder-filter (lemma + text anchor) and a native witness",
              "audio::Frame interleaving and the reader/writer front ends (MultiZip/VecDeque do not finish in CBMC)",
              "LPC with symbolic coefficients on the decode side (SAT cannot match two multiplier circuits; fixed coefficient vectors + lemma L-LPC instead)",
              "encode_frame assembly (> 12 min)"])
P("C02", "model_checking",
  "The independent judge is an RFC 9639 reference written from the RFC (spec/ + harness/spec*.rs). Proved for the whole domain: CRC-8/CRC-16 tables equal the RFC polynomials, every "
  "constructible frame header builds to a valid RFC header that reads back to the same values (shortest number coding, zero reserved bit), CRC-8 placed after exactly the header bytes, "
  "block-size / sample-rate code tables (Verus, on the extracted functions), consecutive frame numbers. Bounded: residual coding, fixed/LPC subframe field sequences, residual exactness.",
  BASE_NOTE, ["encode_frame: zero padding to the byte boundary and CRC-16 placement (out of reach; the CRC writer fold itself is K-crc_rw_fold)",
              "every non-final block has the advertised size (writer front ends out of reach)", "quality of the float analysis (irrelevant to conformance)"])
P("C03", "model_checking",
  "Decoder contracts against an RFC 9639 stream generator that chooses every syntactic alternative: frame header parse proved for ALL 128-bit inputs (variable-blocksize numbering, every "
  "uncommon block-size / sample-rate coding, STREAMINFO references); residuals (Rice, Rice2 at any depth, escapes, zero-width), FIXED 0..4, LPC, wasted bits, 33-bit side channels, all four "
  "channel assignments verified per concrete grammar shape with all values symbolic on blocks of <= 6 samples.",
  BASE_NOTE, ["MD5 comparison in verify_reader (Frame::to_buf out of reach)", "blocks longer than 6 samples", "LPC orders above 3 and symbolic coefficients (lemma L-LPC covers the arithmetic)"])
P("C04", "model_checking",
  "No-panic contracts on every decode function over an arbitrary field oracle with fault injection (all field values, all truncation points) on tiny blocks, header parsing for all 128-bit "
  "inputs, overflow-free prediction and channel reconstruction for all values; Kani checks the overflow-checks-on profile, which subsumes the optimised one.",
  BASE_NOTE, ["termination (unwinding bounds only)", "peak memory beyond block size <= 65535 x 8 channels (V-blocksize-tables)", "sample/byte reader front ends, FlacStreamReader sync scan"])
P("C05", "model_checking",
  "Unbounded Verus lemmas: any change of one byte in a frame of unchanged length changes CRC-16 / CRC-8, so it cannot still check. Proved links: the crate's CRC tables equal the RFC "
  "polynomial; a frame is released only if CRC-16 over every consumed byte is zero; a header only if CRC-8 is; every reserved header/subframe/residual code is rejected; STREAMINFO "
  "consistency; end-of-stream accounting incl. over-long final blocks; read faults are never swallowed.",
  BASE_NOTE, ["flips that change the parse length (the statement's own escape clause)", "MD5 verification (out of reach)", "whole-file prefix property (composition of the per-frame contracts, argued)"])
P("C06", "model_checking",
  "Seek-table lookup (all 2-point tables, all targets), byte-position arithmetic of FlacByteReader::seek for Start/Current/End (all totals and offsets, 5 layouts), and FlacChannelReader "
  "seek/fill_buf/consume from arbitrary well-formed states over an abstract stream (decoder replaced by its contract).",
  BASE_NOTE, ["FlacSampleReader / FlacByteReader refill and skip-forward after landing (Frame::iter / to_buf do not finish in CBMC)"])
P("C07", "model_checking",
  "FlacChannelReader delivers the stream exactly once in order from every well-formed state, end of stream is idempotent, no stale frame after an error; Decoder::read_frame end-of-stream "
  "idempotence; per-sample byte images for 8/16/24/32-bit in both byte orders proved for all values.",
  BASE_NOTE, ["FlacSampleReader::read / FlacByteReader refill (out of reach)", "independence from how the underlying Read fragments data (bitstream-io / std contract)"])
P("C09", "model_checking",
  "Seek-point bookkeeping of Encoder::encode (first sample, byte offset, length per frame; sample counter; declared-length overflow), byte counting under short writes, placeholder table "
  "and interval filters, ordering rule shared by SEEKTABLE reader and writer.",
  BASE_NOTE, ["Encoder::finalize_inner with a reserved seek table or a table carved from padding (does not finish in CBMC: boxed filter iterator, Contiguous::try_extend); the sample-count, MD5 and header-rewrite clauses ARE decided (K-encoder_finalize_noseektable)", "frame-size extrema in encode_frame", "regenerated table equality"])
P("C11", "model_checking",
  "STREAMINFO, block header and seek point: parse/serialise identity proved for ALL bit strings (field by field against RFC 9639 8.2), sizes reported equal sizes written; BlockSize / "
  "bit-counter arithmetic exact; seek-table ordering rule.",
  BASE_NOTE, ["VORBIS_COMMENT, PICTURE, CUESHEET, APPLICATION payloads (Vec/String building does not finish)", "write_blocks / BlockIterator single-instance rules (out of reach)"])
P("C12", "model_checking",
  "Totality of STREAMINFO / block header / seek point parsing on all inputs, accessors (duration, decoded_len, channel mask) for all values, PNG and GIF sniffers on all inputs of the "
  "bounded length.",
  BASE_NOTE, ["cue sheet text parser and cue arithmetic (string code; CDDAOffset::sub / track_offsets are known unchecked subtractions, see DESIGN)", "JPEG sniffer (does not finish)", "VORBIS_COMMENT / PICTURE / CUESHEET block parsers"])
P("C13", "model_checking",
  "Reduced to what is within reach: read faults at every read are propagated by every decode function; CRC reader/writer and the byte counter account only for bytes actually transferred "
  "(short writes) and leave state unchanged on failure.",
  BASE_NOTE, ["the whole write side: write_blocks, update_file (incl. the unflushed BufWriter, a known finding), encode_frame, finalize_inner - all measured out of reach"])
P("C14", "model_checking",
  "Append-only encoding before finalize (Encoder::encode never seeks), provisional STREAMINFO parses (STREAMINFO identity for all bit strings), a partial trailing frame yields an error or "
  "end of stream and never samples (read_frame contract, CRC gate, read-fault propagation), no stale frame after the error.",
  BASE_NOTE, ["the composition 'prefix of frames => prefix of PCM' is argued over the contracts, not machine-checked", "Encoder::new / write_blocks (out of reach)"])
P("C15", "model_checking",
  "Options setters over their whole parameter space (Ok exactly for the documented ranges), declared-length enforcement in Encoder::encode, 1-bit depth STREAMINFO writable.",
  BASE_NOTE, ["Encoder::new and the front-end constructors (write_blocks does not finish)", "FlacStreamWriter::write argument validation (Frame::fill_from_samples out of reach)", "LPC order 32 debug assertion in autocorrelate (float code)"])
P("C16", "model_checking",
  "Subset header parse accepts no STREAMINFO reference and reads exactly the RFC values (all 128-bit inputs); every header the stream writer can build reads back identically; frame counter "
  "increments by one and fails at 2^36-1 (Verus, extracted); CRC-8 and CRC-16 gates; CRC lemmas (a look-alike sync with a wrong byte cannot pass).",
  BASE_NOTE, ["FlacStreamReader::read sync scanning across refill boundaries (does not finish)", "multi-frame garbage interleavings"])
P("C17", "model_checking",
  "Frame header parse/build identity against the RFC for all inputs; write_subframe emits the RFC field sequence of a parsed structure (FIXED order 1, bounded).",
  BASE_NOTE, ["stream::read_subframe, Residuals::from_reader and Subframe::decode build nested Vec structures through iterator collects that CBMC does not get through (> 5 min in symbolic execution "
              "for a 3-sample subframe): parse->write identity, expansion length and agreement with the decoder are NOT decided", "Frame::read / write byte identity, FrameIterator offsets"])
P("C19", "model_checking",
  "encode_subframe never returns a subframe larger than the VERBATIM one (8 + wasted + n x effective bits), for every outcome of the candidate encoders (sizes from a boundary set, failures "
  "symbolic) incl. non-multiple-of-8 depths; all-zero input costs 8 + bps bits.",
  BASE_NOTE, ["accuracy of the float estimates (affects how much smaller, never the bound)", "frame overhead (encode_frame out of reach; header <= 16 bytes by K-hdr_build_vs_rfc)", "constant non-zero blocks through encode_fixed_subframe", "the wasted-bits branch of encode_subframe (Vec::extend over a mapped iterator runs CBMC out of memory)"])




for h in ["k_struct_res_reject_b4_o2_p1", "k_struct_res_reject_b16_o4_p2", "k_struct_res_reject_b6_o0_p2", "k_struct_res_reject_b2_o0_p2"]:
    add("K-" + h[2:], ["C17", "C05"], S + h, tier="quick", bound="four concrete illegal (block, order, partition order) layouts",
        functions=["stream::Residuals::from_reader", "stream::Residuals::from_reader::read_partitions"],
        contract="Residuals::from_reader => Err(InvalidPartitionOrder) when the block is not divisible by 2^po or block >> po <= predictor order (the decoder's rule)", timeout=400)
add("K-struct_write_fixed1", ["C17", "C02"], S + "k_struct_write_fixed1", tier="thorough", bound="FIXED order 1, 3 samples, one Rice partition; all values",
    functions=["stream::write_subframe", "stream::Residuals::to_writer", "stream::ResidualPartition::to_writer"],
    contract="write_subframe(structure) emits field for field the RFC 9639 coding of the structure's content", timeout=600)
add("K-sample_reader_buffered_read", ["C07"], D + "k_sample_reader_buffered_read", bound="3 buffered samples, requests of 1..4",
    functions=["decode::FlacSampleReader::read"],
    contract="FlacSampleReader::read with k > 0 buffered samples returns min(len, k) of them, in order, and removes exactly those; never end-of-stream while samples are buffered",
    stubs=["decode::Decoder::read_frame (reports end of stream)"], timeout=600)


vadd("V-part-encoder-filter", ["C01", "C02", "C15"],
     [{"kind": "file", "path": "lemmas.rs"},
      {"kind": "fn", "file": "src/encode.rs", "container": r"fn write_residuals<W: BitWrite>\(", "fn": "best_partitions", "anchor_only": True,
       "expect": [".rchunks(block_size / partition_count)", ".rev()", ".filter(|p| p.len() == partition_count)",
                  "(0..=block_size", ".trailing_zeros()", ".min(options.max_partition_order)", ".min(MAX_PARTITIONS.ilog2()))",
                  ".collect::<Option<ArrayVec<_, MAX_PARTITIONS>>>()"]},
      {"kind": "fn", "file": "src/encode.rs", "container": None, "fn": "write_residuals", "anchor_only": True,
       "expect": ["const MAX_PARTITIONS: usize = 64;"]}],
     ["l_part_encoder_filter", "l_part_total", "l_part_capacity", "l_pow2_le_64"],
     "L-PART applied to the encoder's candidate filter (model-level with a syntactic anchor): best_partitions cuts the residuals from the end into chunks of block/2^po, only for po <= trailing_zeros(block) "
     "(so the block divides), and keeps a candidate iff it has exactly 2^po chunks; by the lemma that holds iff order < block/2^po, i.e. iff the layout is the RFC's; "
     "with the order additionally limited to ilog2(MAX_PARTITIONS) = 6 no candidate has more than 64 chunks, the capacity of the buffer they are collected into (l_part_capacity: C15, every documented partition order works); "
     "the source fragments the lemmas were written from must still be present, otherwise the obligation is undecided",
     ["encode::write_residuals::best_partitions (text anchor)"], domain="bounded", bound="spec-level lemmas; link to the code is textual (anchors on the candidate range, the chunking, the filter, the collect and the capacity constant)",
     assumes=["std slice::rchunks yields ceil(len / size) chunks with the short one first in reverse order (std, not verified)"])

for h in ["k_stream_sync_after_stray_ff_c6", "k_stream_sync_after_stray_ff_c1", "k_stream_sync_two_candidates_c5", "k_stream_sync_none_c2"]:
    add("K-" + h[2:], ["C16"], D + h, tier="quick", bound="four concrete source layouts (garbage, stray 0xFF, two sync candidates, no sync) x concrete refill sizes; data is concrete because std's memchr over symbolic bytes runs CBMC out of memory",
        functions=["decode::FlacStreamReader::read"],
        contract="FlacStreamReader::read sync scan: a header is tried at exactly every 0xFF followed by 1111100x, in stream order, none skipped (also when a stray 0xFF precedes it or a refill splits the sync code); "
                 "a source without a valid header yields an error, never a frame",
        stubs=["stream::FrameHeader::read_subset (records the candidate, rejects it)"], timeout=300)

for h in ["k_sample_writer_write_1ch_k0_m3", "k_sample_writer_write_1ch_k1_m4", "k_sample_writer_write_2ch_k3_m2", "k_sample_writer_write_2ch_k1_m1"]:
    add("K-" + h[2:], ["C08", "C01"], E + h, tier="quick", bound="1-2 channels, block of 2, carry-over k and write length m fixed per instance; all sample values",
        functions=["encode::FlacSampleWriter::write"],
        contract="FlacSampleWriter::write with k samples carried over: blocks handed to the frame builder and to the MD5 are exactly the first floor((k+m)/F)*F samples of carry ++ input, in order, F at a time; the rest stays buffered in order",
        stubs=["audio::Frame::fill_from_samples (recorder)", "encode::update_md5 (recorder; contract K-update_md5_bytes_*)", "encode::Encoder::encode (contract K-encoder_encode_*)"], timeout=300)
for h in ["k_sample_writer_finalize_2ch_k3", "k_sample_writer_finalize_2ch_k1", "k_sample_writer_finalize_1ch_k0"]:
    add("K-" + h[2:], ["C08", "C15"], E + h, tier="quick", bound="1-2 channels, 0-3 buffered samples; all values",
        functions=["encode::FlacSampleWriter::finalize_inner"],
        contract="FlacSampleWriter::finalize_inner: trailing partial PCM frame dropped, everything before it encoded and hashed as one last block, an empty block is never encoded, finalizes once, second call is a no-op",
        stubs=["audio::Frame::fill_from_samples", "encode::update_md5", "encode::Encoder::encode", "encode::Encoder::finalize_inner"], timeout=300)
for h in ["k_byte_writer_write_le_k1_m4", "k_byte_writer_write_be_k1_m4", "k_byte_writer_write_be_k3_m6", "k_byte_writer_write_be_k0_m3"]:
    add("K-" + h[2:], ["C08", "C01"], E + h, tier="quick", bound="mono 16-bit, block of 2 samples, carry-over k and write length m bytes fixed per instance (incl. writes ending mid-sample); all byte values",
        functions=["encode::FlacByteWriter::write", "byteorder::Endianness::bytes_to_le"],
        contract="FlacByteWriter::write with k bytes carried over: blocks handed on are the first floor((k+m)/B)*B bytes of carry ++ input converted sample-wise to little-endian exactly once; the remainder stays buffered unconverted in input order",
        stubs=["audio::Frame::fill_from_buf (recorder)", "encode::Encoder::encode"], timeout=300)
for h in ["k_update_md5_bytes_w1", "k_update_md5_bytes_w2", "k_update_md5_bytes_w3", "k_update_md5_bytes_w4"]:
    add("K-" + h[2:], ["C08", "C09"], E + h, tier="quick", bound="2 samples (the loop treats every sample alike); all values",
        functions=["encode::update_md5"],
        contract="update_md5: per sample, in order, exactly bytes_per_sample bytes are hashed: the little-endian two's-complement image",
        stubs=["md5::Context::consume (recorder)"], timeout=100)
for h in ["k_byte_reader_deliver_b1_left0", "k_byte_reader_deliver_b2_left2", "k_byte_reader_deliver_b2_left0"]:
    add("K-" + h[2:], ["C07", "C14"], D + h, tier="quick", bound="abstract stream of 3 blocks x 4 bytes; three reader states (empty buffer mid-stream, last block partly / fully read); request sizes 1..5",
        functions=["decode::FlacByteReader::read"],
        contract="FlacByteReader::read delivers the next min(n, rest of block) bytes of the stream in order exactly once and reports the end only after the last byte",
        stubs=["decode::Decoder::read_frame (abstract stream)", "audio::Frame::to_buf (abstract bytes)"], timeout=300)
P("C08", "model_checking",
  "Chunking independence at the place it is implemented: the carry-over/draining logic of FlacSampleWriter::write and FlacByteWriter::write (both byte orders, writes ending mid-sample) hands on exactly "
  "the whole blocks of the concatenated input, in order, and keeps the rest; finalize drops a trailing partial PCM frame and never encodes an empty block; the MD5 is fed the little-endian image of "
  "exactly those samples. By induction over calls the encoded blocks depend on the concatenation only.",
  BASE_NOTE, ["FlacChannelWriter (MultiZip over chunk iterators does not finish)", "audio::Frame::fill_from_* de-interleaving (replaced by recorders)", "equality across front ends and run-to-run determinism (argued: no randomness, time or hash-order dependence in encode.rs)"])


# harnesses whose unchanged-tree run shows allocator-model artefacts (dropping io::Error / BitRecorder Vec) with all contract checks passing
for _o in OBLIGATIONS:
    if _o.id.startswith("K-enc_select_") or _o.id.startswith("K-byte_seek_arith_") or _o.id == "K-read_frame_contract":
        _o.artefacts_ok = True

add("K-frames_reuse_buffer_shape", ["C16", "C03"], D + "k_frames_reuse_buffer_shape", tier="quick", bound="stereo 2-sample frame followed by a mono 4-sample frame of another depth; all sample values",
    functions=["decode::read_subframes", "audio::Frame::resize", "audio::Frame::resized_channels", "audio::Frame::channels"],
    contract="read_subframes into a buffer holding a previous frame of another shape (same sample count): shape and samples are exactly those of the frame just decoded", timeout=300)
add("K-metadata_duration_extremes", ["C12"], M + "k_metadata_duration_extremes", tier="quick", bound="16 concrete (total, rate) pairs incl. the largest 36-bit total and the smallest/largest rates",
    functions=["metadata::Metadata::duration"], contract="duration(): exact seconds and nanoseconds, no overflow, at the extremes of STREAMINFO's ranges", timeout=200)

add("K-encoder_finalize_noseektable", ["C09", "C15", "C14"], E + "k_encoder_finalize_noseektable", tier="quick", domain="full",
    functions=["encode::Encoder::finalize_inner"],
    contract="Encoder::finalize_inner (seek-table policy off): declared total must be matched exactly else SampleCountMismatch; undeclared: 0 => NoSamples, >= 2^36 => ExcessiveTotalSamples, else recorded; "
             "on Ok the MD5 is stored, the stream is repositioned exactly once to the remembered start and the metadata rewritten exactly once after that; on Err nothing is touched; second call is a no-op",
    stubs=["metadata::write_blocks (recorder)", "md5::Context::finalize (fixed digest)"], timeout=300)
add("K-encoder_finalize_no_room", ["C09"], E + "k_encoder_finalize_no_room", tier="quick", bound="two frames written, policy 'every frame', neither SEEKTABLE nor PADDING present",
    functions=["encode::Encoder::finalize_inner"],
    contract="finalize_inner with a seek-table policy but no reserved table and no padding: no table is added, nothing else changes (the reserved-table and carve-from-padding layouts do not finish in CBMC)",
    stubs=["metadata::write_blocks", "md5::Context::finalize"], timeout=300)

for h in ["k_stream_writer_zero_channels", "k_stream_writer_nine_channels", "k_stream_writer_stereo_odd"]:
    add("K-" + h[2:], ["C15", "C16"], E + h, tier="thorough", bound="channel count and sample count fixed per instance (0 channels, 9 channels, 3 samples for 2 channels); rates and depths from representative sets",
        functions=["encode::FlacStreamWriter::write"],
        contract="FlacStreamWriter::write rejects 0 or more than 8 channels and sample counts not divisible by the channel count without panicking, writes no header and does not consume a frame number",
        stubs=["audio::Frame::fill_from_samples", "stream::FrameHeader::write_subset", "encode::encode_subframe"], timeout=600)

for h in ["k_frontend_new_bytes_2x16", "k_frontend_new_bytes_3x20", "k_frontend_new_bytes_0ch", "k_frontend_new_samples_2ch", "k_frontend_new_samples_0ch", "k_frontend_new_bps33", "k_frontend_new_bps0"]:
    add("K-" + h[2:], ["C15"], E + h, tier="thorough" if h in ("k_frontend_new_bps0",) else "quick",
        bound="channel count and bit depth concrete per instance (0, 2, 3 channels; 0, 16, 20, 24, 33 bits: a symbolic 64-bit divisor does not finish); declared/undeclared and every total below 2^40",
        functions=["encode::FlacByteWriter::new", "encode::FlacSampleWriter::new", "encode::exact_div"],
        contract="FlacByteWriter::new / FlacSampleWriter::new never panic (also for 0 channels: no division by zero); bits-per-sample outside 1..=32 => InvalidBitsPerSample; a declared total that is not a whole number of PCM frames => "
                 "SamplesNotDivisibleByChannels; a declared total of 0 => InvalidTotalBytes/InvalidTotalSamples; otherwise the encoder is constructed with exactly total / (PCM frame size) PCM frames, or None when undeclared",
        stubs=["encode::Encoder::new (recorder of its `total` argument; its own validation is K-encoder_new_* / not decided)"], timeout=600)

add("K-struct_decode_constant_verbatim", ["C17"], S + "k_struct_decode_constant_verbatim", tier="quick", bound="constructed CONSTANT (block of 3) and VERBATIM (2 samples) subframes; all sample values, all wasted-bit counts < 32",
    functions=["stream::Subframe::decode"],
    contract="Subframe::decode for CONSTANT / VERBATIM: exactly block_size (resp. samples.len()) samples, each the stored sample shifted left by wasted_bps, in order "
             "(FIXED / LPC arms do not finish: Box<dyn Iterator> + flat_map + Vec::extend)", timeout=200)

for h in ["k_lpc_reject_o1", "k_lpc_reject_o3"]:
    add("K-" + h[2:], ["C05", "C04", "C03"], D + h, tier="quick", bound="predictor order 1 / 3 at 16 bits; all warm-up values, all 4-bit precision codes, all 5-bit shifts",
        functions=["decode::read_lpc_subframe"],
        contract="read_lpc_subframe: the reserved precision code 1111 => InvalidQlpPrecision, a negative 5-bit shift => NegativeLpcShift, exactly those; otherwise it goes on to the coefficients; never Ok on a stream that ends there", timeout=200)
for h in ["k_struct_sub_lpc_shift_o1", "k_struct_sub_lpc_shift_o2"]:
    add("K-" + h[2:], ["C17", "C05"], S + h, tier="quick", bound="LPC order 1 / 2 at 16 bits; all warm-up values, precision codes < 15, all 5-bit shifts",
        functions=["stream::read_subframe", "stream::SubframeHeader::from_reader"],
        contract="structural read_subframe rejects an LPC subframe iff its shift is negative (NegativeLpcShift), as the streaming decoder does (K-lpc_reject_*)", timeout=200)
for h in ["k_struct_sub_parse_simple_nowaste", "k_struct_sub_parse_simple_wasted"]:
    add("K-" + h[2:], ["C17"], S + h, tier="quick", bound="12-bit CONSTANT and VERBATIM subframes, block of 3, with / without wasted bits (all counts 1..11); all sample values",
        functions=["stream::read_subframe", "stream::SubframeHeader::from_reader"],
        contract="structural read_subframe on the RFC coding of CONSTANT / VERBATIM subframes returns exactly the coded sample(s), block size and wasted-bit count and consumes exactly the coding", timeout=300)
add("K-struct_sub_rejects", ["C17", "C05"], S + "k_struct_sub_rejects", tier="quick", bound="12/16-bit subframes; wasted-bit counts 1..20; all 4-bit precision codes",
    functions=["stream::read_subframe"],
    contract="structural read_subframe: wasted bits >= bits-per-sample => ExcessiveWastedBits (and only then); QLP precision code 1111 => InvalidQlpPrecision (and only then)", timeout=200)
for h, tier in [("k_struct_sub_parse_fixed_o0_zero3", "quick"), ("k_struct_sub_parse_fixed_o1_rice2", "thorough"), ("k_struct_sub_parse_fixed_o2_esc2", "thorough"), ("k_struct_sub_parse_lpc_o1_rice2", "thorough")]:
    add("K-" + h[2:], ["C17"], S + h, tier=tier, bound="12-bit FIXED (order 0-2) / LPC (order 1) subframes with 2-3 residuals in one partition (Rice, escape, zero-width escape); all values and parameters",
        functions=["stream::read_subframe", "stream::Residuals::from_reader", "stream::ResidualPartition::from_reader", "stream::ResidualPartitionHeader::from_reader"],
        contract="structural read_subframe on the RFC coding of a FIXED / LPC subframe returns exactly the coded order, warm-up, precision, shift, coefficients, partition kind, parameter and residuals, and consumes exactly the coding "
                 "(two-partition instances run CBMC out of memory)", timeout=900)

for h, tier in [("k_dep_read_meta_fields", "quick"), ("k_dep_read_header_fields", "thorough"), ("k_dep_read_residual_k0_w1", "thorough"), ("k_dep_read_residual_k3_w17", "thorough"), ("k_dep_read_residual_k14_w32", "thorough")]:
    add("K-" + h[2:], ["C03", "C11", "C12"], "verif_k::dep::" + h, tier=tier, bound="one script of 7-10 fields over 8 symbolic bytes truncated at every byte; field kinds: fixed-width unsigned, bit, whole byte / big- and little-endian integers, byte run, skip, "
        "alignment query, unary run, run-time-width unsigned and two's-complement fields (widths 1, 17, 32)",
        functions=["bitstream_io::BitReader (dependency, BigEndian)"],
        contract="the real bitstream-io BitReader and the dependency contract harness/bits.rs (under which every other obligation runs the crate) return the same values, the same alignment answers and fail at the same point, for the same script of reads",
        timeout=900)
# k_dep_write_signed_w1 and k_dep_write_unary_0 (12 min each when run alone) were registered and removed: under load they time out -- unstable, so not claimed
for h, tier in [("k_dep_write_signed_w32", "quick"), ("k_dep_write_unsigned_fields", "thorough")]:
    add("K-" + h[2:], ["C02"], "verif_k::dep::" + h, tier=tier, bound="scripts of 1-2 fields (4+12 bit unsigned; 32-bit two's complement + alignment); all values. Longer scripts, other widths and unary runs do not finish reliably",
        functions=["bitstream_io::BitWriter (dependency, BigEndian)"],
        contract="the real bitstream-io BitWriter and the dependency contract harness/bits.rs accept / reject the same values and produce the same bytes for the same script of writes",
        timeout=1500)

for h in ["k_encoder_finalize_fault_none", "k_encoder_finalize_fault_seek", "k_encoder_finalize_fault_write"]:
    add("K-" + h[2:], ["C13", "C09"], E + h, tier="quick", bound="one frame written, no seek table; fault position fixed per instance (none / repositioning fails / the sink rejects the rewrite)",
        functions=["encode::Encoder::finalize_inner"],
        contract="Encoder::finalize_inner reports success exactly when the stream was repositioned and the sink accepted the rewritten metadata; a failed reposition writes nothing; on success the bytes have reached the sink "
                 "(not a buffer whose flush error is dropped)",
        stubs=["metadata::write_blocks (writes one byte through the writer it is handed and propagates the outcome)", "md5::Context::finalize"], timeout=200)

add("K-channel_mask_from_str_total", ["C12"], M + "k_channel_mask_from_str_total", tier="quick", bound="all UTF-8 texts of at most 4 bytes",
    functions=["metadata::ChannelMask::from_str"],
    contract="ChannelMask::from_str never panics (short text, text without the prefix, multi-byte characters); \"0x\" + two hex digits parses to that number; text without a leading 0 is an error", timeout=400)
add("K-cdda_offset_from_str_m2", ["C12"], "metadata::cuesheet::verif_k::k_cdda_offset_from_str_m2", tier="thorough", bound="texts DD:DD:DD (all digit values); longer minute fields -- where the arithmetic can overflow -- do not finish",
    functions=["metadata::cuesheet::CDDAOffset::from_str"],
    contract="CDDAOffset::from_str(MM:SS:FF) never panics; Ok iff SS < 60 and FF < 75, and then the offset is ((MM*60+SS)*75+FF)*588 samples", timeout=900)

for h, tier in [("k_block_iterator_icons", "quick"), ("k_block_iterator_all_kinds", "thorough"), ("k_block_iterator_no_streaminfo", "thorough")]:
    add("K-" + h[2:], ["C11", "C12"], M + h, tier=tier, bound="the first three blocks of a stream; block kinds symbolic (all eight kinds; the quick instance: the three picture kinds after STREAMINFO)",
        functions=["metadata::BlockIterator::next"],
        contract="BlockIterator::next: first block must be STREAMINFO else MissingStreaminfo and the end; a second STREAMINFO / SEEKTABLE / VORBIS_COMMENT / 32x32 PNG icon / general file icon is the matching Multiple* error; "
                 "one icon of each kind is accepted (the two flags are independent); other blocks pass; a parse error is passed on and ends the iteration",
        stubs=["metadata::BlockIterator::read_block (script of block kinds)"], timeout=1500)
add("K-cdda_offset_arith_total", ["C12"], "metadata::cuesheet::verif_k::k_cdda_offset_arith_total", tier="quick", domain="full",
    functions=["metadata::cuesheet::CDDAOffset::from_str"],
    contract="CDDAOffset::from_str never panics whatever three numbers its fields parse to (all of u64): the sample offset either fits 64 bits or the text is rejected; an accepted offset is a multiple of 588",
    stubs=["<u64 as FromStr>::from_str (oracle: any u64 or a parse error)"], timeout=900,
    assumes=["std's decimal parser returns some u64 or an error (its result is replaced by an oracle)"])

add("K-autocorrelate_accepts_documented_orders", ["C15"], E + "k_autocorrelate_accepts_documented_orders", tier="quick", bound="windows of 1-2 whole-number samples; every LPC order 1..=32",
    functions=["encode::autocorrelate"],
    contract="autocorrelate: for every order Options::max_lpc_order admits (1..=32, K-options_setters) no panic (no debug assertion), min(order + 1, samples) lags, lag 0 is the energy", timeout=400)

add("K-hdr_build_uncommon_block_size", ["C17", "C02"], S + "k_hdr_build_uncommon_block_size", tier="quick", domain="full",
    functions=["stream::FrameHeader::build", "stream::BlockSize::to_writer"],
    contract="FrameHeader::build of a header whose block size is Uncommon8(n) / Uncommon16(n) (every n the variant holds, i.e. also values a shorter coding could express -- what the structural parser returns for such a frame): "
             "the 4-bit code of that variant, then n - 1 in a field of that variant's width; the built header reads back under the RFC with block size n", timeout=600)
add("K-padding_roundtrip", ["C11", "C12"], M + "k_padding_roundtrip", tier="quick", bound="sizes <= 64 bytes; all stream contents and truncations",
    functions=["metadata::Padding::from_reader", "metadata::Padding::to_writer"],
    contract="PADDING: parse(size) consumes exactly size bytes (fails only on a short stream) and yields Padding{size}; serialising writes exactly size zero bytes; bytes() == size", timeout=300)
add("K-application_roundtrip", ["C11", "C12"], M + "k_application_roundtrip", tier="quick", bound="declared sizes <= 6 bytes; all contents",
    functions=["metadata::Application::from_reader", "metadata::Application::to_writer"],
    contract="APPLICATION: 32-bit id then size-4 payload bytes; size < 4 => InsufficientApplicationBlock; serialises back to the same bytes; bytes() == size", timeout=900)
add("K-picture_type_table", ["C11", "C12"], M + "k_picture_type_table", tier="quick", domain="full",
    functions=["metadata::PictureType::from_reader", "metadata::PictureType::to_writer"],
    contract="PICTURE type, all 32-bit codes: Ok iff code <= 20, and the type serialises back to the same code", timeout=200)


# generous limits for the obligations whose measured time is above a quarter of their limit (load on the machine varies)
for _o in OBLIGATIONS:
    if _o.id in ("K-options_setters", "K-metadata_accessors", "K-channel_mask_from_str_total", "K-cdda_offset_arith_total") or _o.id.startswith("K-chan_seek_"):
        _o.timeout = max(_o.timeout, 1200)
    if _o.id.startswith("K-block_iterator_") or _o.id == "K-cdda_offset_from_str_m2":
        _o.timeout = max(_o.timeout, 3000)
    if _o.id.startswith("K-dep_read_") or _o.id == "K-application_roundtrip":
        _o.timeout = max(_o.timeout, 1800)
