from table import add, PROPERTIES

# ---------------------------------------------------------------- CRC
add("K-crc8-spec", ["C02", "C05", "C16"], "crc::verif_k::k_crc8_update_eq_spec", domain="full",
    functions=["crc::Crc8::update", "crc::Crc8::valid"],
    contract="ensures Crc8(s).update(b).0 == spec::crc8_step(s,b); valid() <=> state == 0; default state 0  -- all (s,b)", timeout=120)
add("K-crc16-spec", ["C02", "C05", "C16"], "crc::verif_k::k_crc16_update_eq_spec", domain="full",
    functions=["crc::Crc16::update", "crc::Crc16::valid"],
    contract="ensures Crc16(s).update(b).0 == spec::crc16_step(s,b); valid() <=> state == 0; default state 0  -- all (s,b)", timeout=120)

PROPERTIES.update({
    "C02": {"level": "proof",
            "text": "placeholder",
            "note": "placeholder"},
})
