"""Contract table: every obligation the checks discharge, which real functions it
puts under contract, the contract text, the back end, the domain and the properties it serves."""


class O:
    def __init__(self, id, props, harness=None, backend="kani", tier="quick", domain="bounded", bound="",
                 functions=(), contract="", timeout=600, stubs=(), assumes=(), verus_parts=(), verus_fns=(),
                 rlimit=50, artefacts_ok=False):
        self.id = id
        self.props = props
        self.backend = backend
        self.harness = harness
        self.tier = tier
        self.domain = domain      # "full" = whole precondition domain, loop-free or width-bounded  => counts as proved
        self.bound = bound        # stated bound when domain != full
        self.functions = list(functions)
        self.contract = contract
        self.timeout = timeout
        self.stubs = list(stubs)
        self.assumes = list(assumes)
        self.verus_parts = list(verus_parts)
        self.verus_fns = list(verus_fns)
        self.rlimit = rlimit
        # the harness is known to show Kani allocator-model artefacts on the unchanged tree while its contract checks pass
        self.artefacts_ok = artefacts_ok


TRUSTED_BASE = [
    "Kani 0.68 / CBMC 6.11 / CaDiCaL; Kani's models of core/alloc intrinsics",
    "Verus 0.2026.09.13 / Z3 (vstd axioms)",
    "rustc front end shared by both verifiers",
    "bitstream-io under the contract written out in harness/bits.rs (MSB-first concatenation, two's complement, unary, byte alignment); the contract is cross-checked against the real BitReader / BitWriter for short scripts of every field kind the crate uses (K-dep_*: bounded), not proved in general",
    "std collections / iterator adapters / io::{BufReader,BufWriter,copy}, arrayvec, md5 (not verified)",
]

GLOBAL_ASSUMPTIONS = [
    "--no-memory-safety-checks: sound because the crate is #![forbid(unsafe_code)]; std/arrayvec/bitstream-io internals trusted",
    "Kani checks debug-profile semantics (overflow checks on); optimised profile differs only where an overflow is reported",
    "termination is not proved by Kani (unwinding assertions bound every loop of a discharged harness)",
]

OBLIGATIONS = []
PROPERTIES = {}


def add(*a, **k):
    OBLIGATIONS.append(O(*a, **k))


from table_defs import *  # noqa: F401,F403,E402
